"""C06 - throughput counts every operation exactly once, however samples are batched.

Monitor: the real ThroughputCalculator (kept across batches exactly as
SamplePostprocessor keeps it) is fed a generated sample stream cut into
successive batches. Every tuple it emits is compared with a reference computed
from the whole stream with exact Fractions: cumulative operations / elapsed time.
"""
import collections
from fractions import Fraction

from esrally import metrics
from esrally.driver import driver
from esrally.track import track

ID = "C06"
LEVEL = "exploration"
RULE = (
    "seeded generator of (sample stream, arrival order, batch cut); a case is non-trivial when the stream has >= 3 samples "
    "cut into >= 2 batches or contains a warm-up->normal transition; distinct = hash of (samples, order, cut)"
)
ASSUMPTIONS = [
    "a sample's time_period is its absolute_time minus the task start (as AsyncExecutor records it), so 'elapsed' is well defined; in the request-durations class "
    "(time-ordered arrival) time_period also contains the duration of the request and the task start is the one implied by the earliest sample, as rally takes it",
    "for out-of-order arrival the reference is an interval [ops strictly earlier + own, ops fed so far not later]; exact when arrival is in time order",
    "float comparison with relative tolerance 1e-9",
]
REQUIRED_CLAUSES = ["carry-conservation", "value-in-bounds", "exact-cumulative", "nonneg", "type-monotone", "unit", "normal-value-exists", "passthrough", "batching-invariance",
                    "runner-throughput-reaches-sample", "passthrough-end-to-end", "driver-keeps-calculator-across-batches"]
REQUIRED_FEATURES = {"three-batches-in-one-bucket": 5, "out-of-order": 5, "warmup-to-normal": 5, "runner-supplied": 5, "host-skew": 3, "class-executor": 20, "runner-supplied-zero": 5,
                     "failed-requests-in-calculated-task": 50, "request-durations": 50, "runner-supplied-with-failed-requests": 50, "class-driver": 100, "driver-batch-of-several-messages": 50, "driver-tick-then-join-point": 50, "driver-two-steps": 50}
BUDGET = {
    "quick": {"cases": 160000, "seconds": 40},
    "thorough": {"cases": 1200000, "seconds": 600},
}

UNITS = ["ops", "docs", "pages", "MB"]
W, N = metrics.SampleType.Warmup, metrics.SampleType.Normal


def gen_case(rng):
    """Returns (tasks, arrival, cuts, meta). arrival: list of sample dicts in arrival order."""
    ntasks = rng.choice([1, 1, 1, 2, 3])
    mode = rng.choice(["inorder", "inorder", "workers", "workers-skew"])
    tasks = []
    arrival_per_task = []
    feats = set()
    for ti in range(ntasks):
        unit = rng.choice(UNITS)
        supplied = rng.random() < 0.12
        nclients = rng.randint(1, 8)
        nsamples = rng.choice([1, 2, 3, 4, 5, 8, 12, 20, 40, 80, 150, 400] if rng.random() < 0.3 else [3, 4, 5, 6, 8, 10])
        t0 = 1_700_000_000 + rng.randint(0, 10**6) + rng.random()
        gap_scale = rng.choice([1e-5, 1e-3, 0.05, 0.2, 0.4, 1.0, 3.0, 15.0])
        warm_until = rng.choice([0.0, 0.0, rng.random() * gap_scale * nsamples / max(1, nclients)])
        per_client = max(1, nsamples // nclients)
        samples = []
        sid = 0
        for c in range(nclients):
            t = rng.random() * gap_scale
            for _ in range(per_client):
                t += rng.random() * gap_scale if rng.random() < 0.9 else 0.0
                if rng.random() < 0.15:
                    t = round(t, 1)  # provoke ties and exact bucket boundaries
                ops = rng.choice([0, 1, 1, 10, 100, rng.randint(0, 5000)])
                st = W if t < warm_until else N
                samples.append(
                    {
                        "id": sid, "task": ti, "client": c, "t": t, "abs": t0 + t, "ops": ops, "unit": unit, "type": int(st),
                        "thr": (rng.choice([0.0, 1.5, 1000.0, rng.random() * 1e4]) if supplied else None),
                    }
                )
                sid += 1
        tasks.append({"unit": unit, "supplied": supplied, "t0": t0, "clients": nclients})
        if supplied:
            feats.add("runner-supplied")
            if rng.random() < 0.35:
                # on-error=continue (the default): a request of such a task that fails is sampled the way execute_single reports every failure:
                # no operations, unit "ops", and no throughput from the runner
                for s in samples:
                    if rng.random() < 0.3:
                        s.update(thr=None, ops=0, unit="ops", failed=True)
                        feats.add("runner-supplied-with-failed-requests")
        elif rng.random() < 0.15:
            # the same for a task whose throughput rally calculates: a failed request is a sample with 0 operations in the unit "ops" (execute_single)
            for s in samples:
                if rng.random() < 0.25:
                    s.update(ops=0, unit="ops", failed=True)
                    feats.add("failed-requests-in-calculated-task")
        if any(s["type"] == int(W) for s in samples) and any(s["type"] == int(N) for s in samples):
            feats.add("warmup-to-normal")
        # arrival order
        if mode == "inorder":
            samples.sort(key=lambda s: (s["abs"], s["id"]))
            chunks = [[s] for s in samples]
            if rng.random() < 0.4:
                # requests take time, as in a race: AsyncExecutor stamps absolute_time when the request is issued and time_period when it has
                # ended, so absolute_time - time_period differs from sample to sample by the duration of the request (slow and fast clients mixed).
                # Rally derives the start of the task from the earliest sample; in time-ordered arrival that sample is in the first batch whatever
                # the cut, so the start - and with it every value - must not depend on where later batches begin.
                scale = rng.choice([0.001, 0.05, 0.5, 3.0])
                slow = {c for c in range(nclients) if rng.random() < 0.4}
                for s in samples:
                    s["dur"] = rng.random() * scale * (10 if s["client"] in slow else 1)
                tasks[-1]["durations"] = True
                feats.add("request-durations")
        else:
            # clients grouped into workers; each worker ships its samples (time ordered) in chunks; chunks interleave
            nworkers = rng.randint(1, min(4, nclients))
            skew = [0.0] * nworkers
            if mode == "workers-skew":
                skew = [rng.choice([0.0, rng.uniform(-2, 2), rng.uniform(-0.01, 0.01)]) for _ in range(nworkers)]
                feats.add("host-skew")
            chunks = []
            for w in range(nworkers):
                mine = sorted((s for s in samples if s["client"] % nworkers == w), key=lambda s: (s["t"], s["id"]))
                for s in mine:
                    s["abs"] += skew[w]  # wall clock of another host
                ship = rng.choice([0.5, 1.0, 5.0, 1e9])
                cur, edge = [], None
                for s in mine:
                    b = int(s["t"] / ship)
                    if edge is not None and b != edge and cur:
                        chunks.append((cur[-1]["t"] + rng.random() * ship, cur))
                        cur = []
                    edge = b
                    cur.append(s)
                if cur:
                    chunks.append((cur[-1]["t"] + rng.random() * ship, cur))
            chunks.sort(key=lambda c: c[0])
            chunks = [c[1] for c in chunks]
        arrival_per_task.append(chunks)
    # merge the chunk sequences of all tasks into one arrival sequence
    arrival = []
    idx = [0] * ntasks
    while any(idx[i] < len(arrival_per_task[i]) for i in range(ntasks)):
        i = rng.choice([i for i in range(ntasks) if idx[i] < len(arrival_per_task[i])])
        arrival.extend(arrival_per_task[i][idx[i]])
        idx[i] += 1
    n = len(arrival)
    cutmode = rng.choice(["each", "random", "random", "one", "few", "driver"])
    if cutmode == "each":
        cuts = list(range(1, n))
    elif cutmode == "one":
        cuts = []
    elif cutmode == "few":
        cuts = sorted(set(rng.randint(1, n - 1) for _ in range(rng.randint(1, 3)))) if n > 1 else []
    elif cutmode == "driver":
        # step-boundary / 30s tick pattern: cut where time passes a multiple of `tick`
        tick = rng.choice([0.5, 5.0, 30.0])
        cuts = [i for i in range(1, n) if int(arrival[i]["t"] / tick) != int(arrival[i - 1]["t"] / tick)]
    else:
        p = rng.choice([0.1, 0.3, 0.6])
        cuts = [i for i in range(1, n) if rng.random() < p]
    ooo = any(arrival[i]["abs"] < arrival[i - 1]["abs"] and arrival[i]["task"] == arrival[i - 1]["task"] for i in range(1, n))
    if not ooo:
        seen = {}
        for s in arrival:
            if s["abs"] < seen.get(s["task"], float("-inf")):
                ooo = True
            seen[s["task"]] = max(seen.get(s["task"], float("-inf")), s["abs"])
    if ooo:
        feats.add("out-of-order")
    return tasks, arrival, cuts, {"mode": mode, "cutmode": cutmode, "features": feats}


def build_objects(tasks, arrival):
    tobjs = []
    for i, t in enumerate(tasks):
        op = track.Operation(f"op{i}", track.OperationType.Bulk.to_hyphenated_string(), meta_data={"m": i})
        tobjs.append(track.Task(f"task{i}", op, clients=t["clients"], meta_data={"tm": i}))
    sobjs = []
    for s in arrival:
        t = tasks[s["task"]]
        sobjs.append(
            driver.Sample(
                s["client"], s["abs"], 1000.0 + s["t"], 1000.0, tobjs[s["task"]], metrics.SampleType(s["type"]), None,
                0.01, 0.01, 0.011, s["thr"], s["ops"], s["unit"], s["abs"] - t["t0"] + s.get("dur", 0.0), None,
            )
        )
    return tobjs, sobjs


def batches_of(seq, cuts):
    out, prev = [], 0
    for c in list(cuts) + [len(seq)]:
        if c > prev:
            out.append(seq[prev:c])
        prev = c
    return out


def close(a, b):
    return abs(a - b) <= 1e-9 * max(1.0, abs(a), abs(b))


class CarryOverflow(Exception):
    pass


def run_calculator(tobjs, sobjs, arrival, cuts):
    """Feeds the real calculator batch by batch. Returns per batch {task_index: [tuples]}."""
    calc = driver.ThroughputCalculator()
    emitted = []
    fed = 0
    for bi, bs in enumerate(batches_of(list(range(len(sobjs))), cuts)):
        res = calc.calculate([sobjs[i] for i in bs])
        fed += len(bs)
        emitted.append({tobjs.index(t): list(v) for t, v in res.items()})
        # invariant at a quiescent point: the calculator cannot hold back more samples than it was given
        # (also keeps a double-counting calculator from growing its carry list exponentially and hanging the run)
        held = sum(len(getattr(st, "unprocessed", ())) for st in getattr(calc, "task_stats", {}).values())
        if held > fed:
            raise CarryOverflow(f"after batch {bi} the calculator carries {held} unprocessed samples but only {fed} were fed")
    return emitted


def check_case(ctx, tasks, arrival, cuts, report=True, emit=None):
    """Returns list of (clause, msg, detail) problems; counts clause evaluations on ctx.
    emit: what turns the batches into emitted throughput tuples (default: one real calculator kept across the batches; c06_driver: the real Driver)."""
    problems = []
    tobjs, sobjs = build_objects(tasks, arrival)
    ctx.clause("carry-conservation")
    try:
        emitted = (emit or run_calculator)(tobjs, sobjs, arrival, cuts)
    except CarryOverflow as e:
        return [("carry-conservation", str(e), None)], [dict() for _ in tasks]
    batch_ix = batches_of(list(range(len(arrival))), cuts)
    ntasks = len(tasks)
    fed = [[] for _ in range(ntasks)]  # samples fed in previous batches per task
    last_type = [None] * ntasks
    normal_values = [0] * ntasks
    pass_expected = [[] for _ in range(ntasks)]
    pass_got = [[] for _ in range(ntasks)]
    failed_at = [set() for _ in range(ntasks)]
    by_abs_value = [dict() for _ in range(ntasks)]
    first_dur = [next((s.get("dur", 0.0) for s in arrival if s["task"] == ti), 0.0) if tasks[ti].get("durations") else 0.0 for ti in range(ntasks)]
    for bi, idxs in enumerate(batch_ix):
        cur = [[] for _ in range(ntasks)]
        for i in idxs:
            cur[arrival[i]["task"]].append(arrival[i])
        for ti in range(ntasks):
            tuples = emitted[bi].get(ti, [])
            if not cur[ti]:
                if tuples:
                    problems.append(("value-in-bounds", f"batch {bi}: values emitted for task{ti} although no sample of it was in the batch", tuples))
                continue
            # the start of the task: the wall clock at which it began or, when requests have a duration, the start implied by its earliest sample
            t0 = tasks[ti]["t0"] - first_dur[ti]
            if tasks[ti]["supplied"]:
                for s in sorted(cur[ti], key=lambda s: s["abs"]):
                    if s.get("failed"):
                        failed_at[ti].add(s["abs"])
                    else:
                        pass_expected[ti].append((s["abs"], s["type"], s["thr"], s["unit"] + "/s"))
                for (a, r, st, v, u) in tuples:
                    pass_got[ti].append((a, int(st), v, u))
                fed[ti].extend(cur[ti])
                continue
            prev = fed[ti]
            prev_max = max((s["abs"] for s in prev), default=None)
            for (a, r, st, v, u) in tuples:
                ctx.clause("nonneg")
                if not v >= 0:
                    problems.append(("nonneg", f"negative throughput {v}", None))
                ctx.clause("unit")
                # the unit of what was counted; a value that counts nothing (only failed requests so far) may also come in the unit of failures, "ops"
                if u != tasks[ti]["unit"] + "/s" and not (v == 0 and u == "ops/s"):
                    problems.append(("unit", f"throughput {v!r} of task{ti} at t={a - t0:.6f}s is labelled {u!r} but the task's operations are counted in {tasks[ti]['unit']}", {"failed-sample-unit": u == "ops/s"}))
                ctx.clause("type-monotone")
                if last_type[ti] is not None and int(st) < last_type[ti]:
                    problems.append(("type-monotone", f"sample type went back to warm-up at abs={a}", None))
                last_type[ti] = int(st)
                if int(st) == int(N):
                    normal_values[ti] += 1
                # with out-of-order arrival the reported sample may be one carried over from an earlier batch
                own = [s for s in cur[ti] if s["abs"] == a] or [s for s in prev if s["abs"] == a]
                if not own:
                    problems.append(("value-in-bounds", f"value reported at time {a} where no sample fed so far has that time", None))
                    continue
                elapsed = Fraction(max(a, prev_max) if prev_max is not None else a) - Fraction(t0)
                if elapsed <= 0:
                    problems.append(("value-in-bounds", f"value reported with non-positive elapsed time {float(elapsed)}", None))
                    continue
                strictly_before = sum(s["ops"] for s in prev if s["abs"] < a) + sum(s["ops"] for s in cur[ti] if s["abs"] < a)
                lower = strictly_before + min(s["ops"] for s in own)
                upper = sum(s["ops"] for s in prev) + sum(s["ops"] for s in cur[ti] if s["abs"] <= a)
                lo, hi = float(Fraction(lower) / elapsed), float(Fraction(upper) / elapsed)
                ctx.clause("value-in-bounds")
                if not (v >= lo or close(v, lo)) or not (v <= hi or close(v, hi)):
                    kind = "more" if v > hi else "fewer"
                    problems.append(
                        (
                            "value-in-bounds",
                            f"task{ti} batch {bi}: throughput {v!r} at t={a - t0:.6f}s counts {kind} operations than were completed "
                            f"(cumulative ops in [{lower},{upper}], elapsed {float(elapsed):.6f}s => [{lo!r},{hi!r}])",
                            {"ops_implied": v * float(elapsed), "lower": lower, "upper": upper},
                        )
                    )
                if lower == upper:
                    ctx.clause("exact-cumulative")
                    by_abs_value[ti][a] = v
            fed[ti].extend(cur[ti])
    for ti in range(ntasks):
        if tasks[ti]["supplied"]:
            ctx.clause("passthrough")
            # every supplied value exactly once and unchanged; a failed request of such a task (no throughput from the runner) may get no value or
            # a number, but nothing else may be emitted and nothing that is not a non-negative number
            left = collections.Counter(pass_got[ti])
            missing = []
            for e in pass_expected[ti]:
                if left[e] > 0:
                    left[e] -= 1
                else:
                    missing.append(e)
            extra = [g for g, k in left.items() for _ in range(k)]
            bad_extra = [g for g in extra if g[0] not in failed_at[ti] or isinstance(g[2], bool) or not isinstance(g[2], (int, float)) or not g[2] >= 0]
            if missing or bad_extra:
                what = "was not passed through unchanged, once per sample" if missing else "comes with values that no sample supplied"
                if failed_at[ti]:
                    what += f" ({len(failed_at[ti])} failed request(s) without a throughput among the samples)"
                problems.append(("passthrough", f"runner-supplied throughput of task{ti} {what}", {"supplied-but-not-emitted": missing[:5], "emitted-but-not-supplied": bad_extra[:5], "failed": bool(failed_at[ti])}))
            continue
        alls = fed[ti]
        if any(s["type"] == int(N) for s in alls) and max(s["abs"] for s in alls) - tasks[ti]["t0"] > 0:
            ctx.clause("normal-value-exists")
            if normal_values[ti] == 0:
                problems.append(("normal-value-exists", f"task{ti} has normal samples and positive elapsed time but no normal throughput value", None))
    return problems, by_abs_value


def in_one_bucket_feature(arrival, cuts, tasks):
    """>= 3 consecutive batches whose samples of one task all fall into the same one-second bucket."""
    bs = batches_of(arrival, cuts)
    run, key = 0, None
    for b in bs:
        ks = {(s["task"], int(s["abs"] - tasks[s["task"]]["t0"])) for s in b}
        if len(ks) == 1:
            k = next(iter(ks))
            run = run + 1 if k == key else 1
            key = k
            if run >= 3:
                return True
        else:
            run, key = 0, None
    return False


def one_case(ctx, rng, explicit=None):
    if explicit is None:
        tasks, arrival, cuts, meta = gen_case(rng)
    else:
        tasks, arrival, cuts, meta = explicit
    feats = set(meta["features"])
    if in_one_bucket_feature(arrival, cuts, tasks):
        feats.add("three-batches-in-one-bucket")
    problems, by_abs = check_case(ctx, tasks, arrival, cuts)
    # metamorphic relation: the one-batch run must agree wherever both report the same sample (in-order arrival only)
    if cuts and "out-of-order" not in feats:
        p1, by_abs1 = check_case(_Null(), tasks, arrival, [])
        for ti in range(len(tasks)):
            for a, v in by_abs[ti].items():
                if a in by_abs1[ti]:
                    ctx.clause("batching-invariance")
                    if not close(v, by_abs1[ti][a]):
                        problems.append(("batching-invariance", f"task{ti}: throughput at the same sample differs between one batch ({by_abs1[ti][a]!r}) and {len(cuts) + 1} batches ({v!r})", None))
    canon = ([(s["task"], s["client"], round(s["t"], 9), s["ops"], s["type"], s["thr"]) for s in arrival], cuts)
    nontrivial = (len(arrival) >= 3 and len(cuts) >= 1) or "warmup-to-normal" in feats
    ctx.case(canon, nontrivial, feats)
    case = {"tasks": tasks, "arrival": arrival, "cuts": cuts, "meta": {"mode": meta["mode"], "cutmode": meta["cutmode"], "features": sorted(feats)}}
    if len(arrival) <= 8:
        ctx.sample(case, tag="+".join(sorted(feats)) or "plain")
    for clause, msg, detail in problems[:3]:
        ctx.violation(clause, {"case": shrink(case, clause) if len(arrival) <= 60 else case, "detail": detail}, msg)
    return problems


class _Null:
    def clause(self, *a, **k):
        pass


def shrink(case, clause):
    """Greedy removal of samples / cuts while the same clause still fails."""
    tasks, arrival, cuts = case["tasks"], list(case["arrival"]), list(case["cuts"])

    def fails(arr, cs):
        try:
            probs, _ = check_case(_Null(), tasks, arr, cs)
        except Exception:
            return False
        return any(p[0] == clause for p in probs)

    changed = True
    while changed:
        changed = False
        for i in range(len(arrival)):
            arr = arrival[:i] + arrival[i + 1:]
            cs = sorted({c - 1 if c > i else c for c in cuts if 0 < (c - 1 if c > i else c) < len(arr)})
            if arr and fails(arr, cs):
                arrival, cuts, changed = arr, cs, True
                break
        if not changed:
            for c in cuts:
                cs = [x for x in cuts if x != c]
                if fails(arrival, cs):
                    cuts, changed = cs, True
                    break
    return {"tasks": tasks, "arrival": arrival, "cuts": cuts, "meta": case["meta"]}


def run_shard(ctx):
    from props import c06_driver, c06_exec

    i = 0
    while ctx.more():
        if i % 40 == 20:
            c06_driver.one_case(ctx, ctx.case_rng(f"driver{i}"))  # the same streams, batched by the real Driver (periodic tick, join points, two steps)
        elif i % 150 == 75:
            c06_exec.one_case(ctx, ctx.case_rng(f"exec{i}"))  # runner -> real executor -> real sampler -> real calculator (costs ~100 calculator cases)
        else:
            one_case(ctx, ctx.case_rng(i))
        i += 1


def classify(v):
    return None


def replay(ctx, rec):
    if rec["witness"].get("class") == "executor":
        from props import c06_exec

        c06_exec.one_case(ctx, None, explicit=rec["witness"]["case"])
        return
    case = rec["witness"]["case"]
    meta = dict(case["meta"])
    meta["features"] = set(meta.get("features", []))
    if rec["witness"].get("class") == "driver":
        from props import c06_driver

        c06_driver.one_case(ctx, None, explicit=(case["tasks"], case["arrival"], case["cuts"], meta))
        return
    one_case(ctx, None, explicit=(case["tasks"], case["arrival"], case["cuts"], meta))


MANIFEST = {
    "text": "Exploration: the real ThroughputCalculator is fed ~10^5 (quick) / ~10^6 (thorough) generated sample streams, each cut into successive batches "
    "(every sample its own batch, random cuts, >=3 batches inside one bucket, driver-tick cuts, out-of-order arrival across workers, host clock skew); every emitted value "
    "is compared with an exact-Fraction reference (cumulative ops / elapsed). One case in 150 sends a runner-supplied throughput (0 and 0.0 included) through the real executor and sampler "
    "on a virtual clock and the real samples, cut into batches, through the real calculator; one case in 40 runs two generated streams as two consecutive steps through a real "
    "Driver coordinator (pickled UpdateSamples payloads, periodic post_process_samples, joinpoint_reached by every worker) and judges what reaches the store with the same oracle. "
    "Tasks with runner-supplied throughput also get failed requests (no throughput, 0 ops); in the request-durations class (time-ordered arrival) every sample's time_period also holds the duration of its request, so that absolute_time - time_period differs from sample to sample as in a race. Holds on the executions produced, not beyond.",
    "note": "Trusts the reference (cumulative ops / elapsed, 30 lines), Python Fractions, and that time_period = absolute_time - task start as AsyncExecutor records it (request-durations class: the task start is the one implied by the earliest sample, as rally derives it).",
    "technique": "runtime monitor: reference-model oracle + conservation invariant on the calculator's carry list + metamorphic batching relation over generated streams",
    "design_ref": "DESIGN.md section 4 C06",
}
