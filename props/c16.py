"""C16 - retryable operations retry exactly as configured.

Monitor: the real `runner.Retry.__call__` drives a scripted delegate (a recorded async callable that produces one outcome of
a fault alphabet per attempt, built from the real elasticsearch / elastic_transport exception classes) on an asyncio loop with
a virtual clock. A reference interpreter of the property statement (`reference`, ~30 lines, written from the statement and
docs/track.rst "Retries") runs in lock-step; compared are: number of attempts, the virtual-time gap between the end of one
attempt and the start of the next, the arguments of every attempt and the identity of the object finally returned / raised.
The first divergence is reported under the clause of the statement it contradicts.

A second monitor drives every operation type that docs/track.rst marks as "retryable" through the runner that
`register_default_runners` registered for it (innermost runner swapped for the scripted delegate) and demands the same.
"""
import asyncio
import heapq
import itertools
import logging
import re
import socket
from pathlib import Path

import elastic_transport
import elasticsearch

from esrally import exceptions
from esrally.driver import runner

ID = "C16"
LEVEL = "fault_enumeration"
RULE = (
    "case = (outcome sequence, retry parameters, constructor default of retry-until-success, per-attempt virtual duration). Part A: "
    "every sequence over the 11-letter alphabet up to length 2 (quick) / 3 (thorough) x the FULL parameter grid (1512 combinations); part B: every "
    "sequence up to length 5 (quick) / 6 (thorough) x seeded samples of the grid; part C: seeded random sequences up to length 12 over the extended "
    "alphabet (plus 401/409/429/5xx API errors, TlsError, SniffingError, non-elasticsearch exceptions, dicts without a success key) and "
    "retry-until-success runs with up to 63 failures before the success. Past its end every script yields success, so each run terminates. "
    "Non-trivial: the statement requires >= 2 attempts or the first attempt is not a success. Distinct = hash of (sequence prefix consumed, parameters)"
)
ASSUMPTIONS = [
    "outcome classes: 'timeout or connection error' = elastic_transport ConnectionTimeout / ConnectionError (and subclasses, e.g. TlsError), socket.timeout, "
    "HTTP 408 (the property's quantifier lists 408 next to the timeouts and apart from 'other API errors'); 'unsuccessful result' = a dict with success == False; "
    "any other returned value (dict without the key, tuple, None) counts as success, as docs say a retry happens 'until the operation returns a success' and "
    "only a dict can say otherwise",
    "retry-until-success given in the parameters overrides the runner's constructor default (docs: get-async-search 'To disable this behavior ... set retry-until-success to false') "
    "and forces retry-on-error (docs/track.rst)",
    "'waiting retry-wait-period between attempts' is measured on the loop's virtual clock from the end of attempt k to the start of attempt k+1 (tolerance 1e-9)",
    "'exactly what that attempt produced' is object identity of the returned value / raised exception",
    "for the registration check only what docs/track.rst states is demanded: an operation marked 'This operation is retryable' must retry through its registered runner; "
    "operations that are wrapped without being marked are listed in the notes, not reported",
]
REQUIRED_CLAUSES = [
    "attempts-bounded", "stops-at-success", "retries-when-enabled", "no-retry-when-disabled", "non-retryable-propagates",
    "unbounded-until-success", "wait-period", "final-outcome", "same-arguments", "documented-retryable-retries", "invocation-independent", "client:attempts", "client:wait-period", "client:final-outcome", "retry-settings-reach-the-runner",
]
REQUIRED_FEATURES = {
    "retried-after-timeout": 100, "retried-after-unsuccessful": 100, "until-success": 100, "until-success>=20-attempts": 5,
    "last-attempt-raises": 100, "last-attempt-returns-unsuccessful": 100, "api-error-not-408": 100, "api-408-retried": 50,
    "socket-timeout-retried": 50, "other-transport-error": 100, "non-es-exception": 20, "timeout-off": 100, "error-off": 100,
    "wait-default": 50, "wait-0": 50, "ctor-until-default": 50, "ctor-until-overridden": 20, "slow-attempts": 100,
    "partA-done": 1, "partB-done": 1, "concurrent-groups": 50, "class-client": 100, "client:408-retried": 10, "client:error-body-string": 5, "client:error-body-no-error-member": 5,
}
BUDGET = {
    "quick": {"cases": 2_000_000, "seconds": 30},
    "thorough": {"cases": 40_000_000, "seconds": 480},
}
EXHAUSTIVE_WHOLE = False  # sequences are enumerated exhaustively, the parameter grid only for the short ones

TRACK_RST = Path("/repo/docs/track.rst")
CAP = 70  # a delegate called more often than this aborts the run (scripts succeed after at most 64 attempts)

# ---------------------------------------------------------------------------------------------------------------------
# outcome alphabet
ALPHABET = ["ok", "fail", "tuple", "none", "ctimeout", "cerror", "stimeout", "api408", "api404", "ser", "transport"]
EXTENDED = ALPHABET + ["ok-nokey", "api400", "api401", "api403", "api409", "api429", "api500", "api503", "tls", "sniff", "rallyerr", "keyerr"]

SUCCESS = {"ok", "ok-nokey", "tuple", "none"}
UNSUCCESSFUL = {"fail"}
TIMEOUTISH = {"ctimeout", "cerror", "stimeout", "api408", "tls"}
OTHER_TRANSPORT = {"ser", "transport", "sniff"}  # TransportErrors that are neither connection errors / timeouts nor API errors
API_OTHER = {"api400", "api401", "api403", "api404", "api409", "api429", "api500", "api503"}
FOREIGN = {"rallyerr", "keyerr"}

_NODE = elastic_transport.NodeConfig("http", "localhost", 9200)


def _api(status, err):
    meta = elastic_transport.ApiResponseMeta(status=status, http_version="1.1", headers=elastic_transport.HttpHeaders(), duration=0.0, node=_NODE)
    cls = elasticsearch.exceptions.HTTP_EXCEPTIONS.get(status, elasticsearch.ApiError)
    return cls(message=err, meta=meta, body={"error": {"type": err, "reason": "scripted"}, "status": status})


def make(kind):
    """-> (is_exception, fresh object); a fresh object per attempt so that identity tells which attempt's product came out."""
    if kind == "ok":
        return False, {"weight": 1, "unit": "ops", "success": True}
    if kind == "ok-nokey":
        return False, {"weight": 1, "unit": "ops"}
    if kind == "fail":
        return False, {"weight": 1, "unit": "ops", "success": False}
    if kind == "tuple":
        return False, tuple([1, "ops"])  # a fresh object per attempt
    if kind == "none":
        return False, None
    if kind == "ctimeout":
        return True, elasticsearch.ConnectionTimeout(message="Connection timed out")
    if kind == "cerror":
        return True, elasticsearch.ConnectionError(message="no route to host")
    if kind == "tls":
        return True, elastic_transport.TlsError(message="TLS handshake failed")
    if kind == "stimeout":
        return True, socket.timeout("timed out")
    if kind == "ser":
        return True, elasticsearch.SerializationError(message="Unable to deserialize as JSON")
    if kind == "transport":
        return True, elasticsearch.TransportError("transport failed")
    if kind == "sniff":
        return True, elastic_transport.SniffingError("No viable nodes were discovered")
    if kind == "rallyerr":
        return True, exceptions.RallyAssertionError("scripted non-elasticsearch failure")
    if kind == "keyerr":
        return True, KeyError("index")
    if kind.startswith("api"):
        status = int(kind[3:])
        return True, _api(status, {408: "request_timeout_exception", 404: "index_not_found_exception", 429: "es_rejected_execution_exception"}.get(status, "scripted_exception"))
    raise ValueError(kind)


def kind_at(script, i):
    return script[i] if i < len(script) else "ok"


# ---------------------------------------------------------------------------------------------------------------------
# reference interpreter of the statement
def effective(params, ctor_until):
    until = params.get("retry-until-success", ctor_until)
    return {
        "until": bool(until),
        "max": None if until else params.get("retries", 0) + 1,
        "on_error": True if until else params.get("retry-on-error", False),
        "on_timeout": params.get("retry-on-timeout", True),
        "wait": params.get("retry-wait-period", 0.5),
    }


def reference(script, params, ctor_until, retry_other_transport_without_wait=False):
    """The statement, executed: -> {"attempts", "waits", "final": ("return"|"raise", index of the deciding attempt), "stop": reason}.
    `retry_other_transport_without_wait` is NOT the statement: it is the one-line description of the known finding, used by classify()."""
    e = effective(params, ctor_until)
    waits = []
    n = 0
    while True:
        kind = kind_at(script, n)
        n += 1
        last = e["max"] is not None and n == e["max"]
        mode = "return" if kind in SUCCESS or kind in UNSUCCESSFUL else "raise"
        wait = e["wait"]
        if kind in SUCCESS:
            stop = "success"
        elif kind in UNSUCCESSFUL:
            stop = None if e["on_error"] else "disabled"
        elif kind in TIMEOUTISH:
            stop = None if e["on_timeout"] else "disabled"
        elif retry_other_transport_without_wait and kind in OTHER_TRANSPORT and e["on_timeout"]:
            stop, wait = None, 0.0
        else:
            stop = "non-retryable"
        if stop is None and last:
            stop = "last-attempt"
        if stop is not None:
            return {"attempts": n, "waits": waits, "final": (mode, n - 1), "stop": stop}
        if n >= CAP:
            raise HarnessError(f"script does not terminate: {script[:8]}... {params}")
        waits.append(wait)


class HarnessError(Exception):
    pass


# ---------------------------------------------------------------------------------------------------------------------
# virtual time
class VirtualLoop(asyncio.SelectorEventLoop):
    """The clock only moves when nothing is runnable: it then jumps to the next timer."""

    def __init__(self):
        super().__init__()
        self.now = 0.0

    def time(self):
        return self.now

    def _run_once(self):
        if not self._ready and not self._stopping:
            while self._scheduled and self._scheduled[0]._cancelled:
                h = heapq.heappop(self._scheduled)
                h._scheduled = False
                self._timer_cancelled_count -= 1
            if self._scheduled and self._scheduled[0]._when > self.now:
                self.now = self._scheduled[0]._when
        super()._run_once()


class Abort(BaseException):
    """Raised by the delegate when it is called more than CAP times (a retry loop that does not stop)."""


class Scripted:
    """The delegate: produces script[i] on its i-th call and records when and with what it was called."""

    def __init__(self, loop, script, durations):
        self.loop, self.script, self.durations = loop, script, durations
        self.starts, self.ends, self.produced, self.args = [], [], [], []

    def __repr__(self):
        return "scripted-delegate"

    async def __aenter__(self):
        return self

    async def __aexit__(self, *a):
        return False

    async def __call__(self, es, params):
        i = len(self.starts)
        if i >= CAP:
            raise Abort()
        self.starts.append(self.loop.time())
        self.args.append((es, params))
        is_exc, obj = make(kind_at(self.script, i))
        self.produced.append(obj)
        d = self.durations[i] if i < len(self.durations) else 0
        if d:
            await asyncio.sleep(d)
        self.ends.append(self.loop.time())
        if is_exc:
            raise obj
        return obj


def observe(loop, call, delegate):
    """Runs `call` (a coroutine function) to completion on the virtual loop -> observed record."""
    loop.now = 0.0  # nothing is pending between cases; a small clock keeps the float error of a gap far below the tolerance
    try:
        res = loop.run_until_complete(call())
        mode, obj = "return", res
    except Abort:
        return {"attempts": len(delegate.starts), "gaps": [], "final": ("abort", None), "aborted": True}
    except BaseException as e:  # pylint: disable=broad-except
        if isinstance(e, (KeyboardInterrupt, SystemExit)):
            raise
        mode, obj = "raise", e
    idx = [i for i, p in enumerate(delegate.produced) if p is obj]
    if obj is None and mode == "return":
        # None has no identity: attribute it to the last attempt if that produced None, else to any attempt that did
        idx = [i for i in idx if i == len(delegate.produced) - 1] or idx
    which = idx[-1] if idx else None
    gaps = [delegate.starts[i + 1] - delegate.ends[i] for i in range(len(delegate.starts) - 1) if i < len(delegate.ends)]
    return {
        "attempts": len(delegate.starts), "gaps": gaps, "final": (mode, which),
        "foreign": None if which is not None else f"{type(obj).__name__}: {str(obj)[:120]}",
    }


def same_final(exp, got):
    return tuple(exp) == tuple(got)


def close(a, b):
    return abs(a - b) <= 1e-9


def compare(ctx, script, params, ctor_until, exp, got, delegate, es, passed_params):
    """Lock-step comparison; counts clause evaluations; -> list of (clause, msg)."""
    e = effective(params, ctor_until)
    out = []
    n_exp, n_got = exp["attempts"], got["attempts"]
    stop = exp["stop"]
    stop_kind = kind_at(script, n_exp - 1)
    # -- clauses about whether a further attempt is made
    if exp["waits"]:
        ctx.clause("retries-when-enabled", len(exp["waits"]))
        if e["until"]:
            ctx.clause("unbounded-until-success")
    if stop == "success":
        ctx.clause("stops-at-success")
    elif stop == "last-attempt":
        ctx.clause("attempts-bounded")
    elif stop == "disabled":
        ctx.clause("no-retry-when-disabled")
    elif stop == "non-retryable":
        ctx.clause("non-retryable-propagates")
    desc = f"outcomes {[kind_at(script, i) for i in range(max(n_exp, min(n_got, 8)))]} with {params or '{}'}" + (" (runner default retry-until-success)" if ctor_until else "")
    if got.get("aborted"):
        clause = {"success": "stops-at-success", "last-attempt": "attempts-bounded", "disabled": "no-retry-when-disabled", "non-retryable": "non-retryable-propagates"}[stop]
        return [(clause, f"{desc}: the statement allows {n_exp} attempt(s); the delegate was still being called after {CAP}")]
    if n_got > n_exp:
        if stop == "success":
            out.append(("stops-at-success", f"{desc}: attempt {n_exp} succeeded ({stop_kind}) but {n_got - n_exp} more attempt(s) followed"))
        elif stop == "last-attempt":
            out.append(("attempts-bounded", f"{desc}: {n_got} attempts although retries + 1 = {e['max']}"))
        elif stop == "disabled":
            which = "retry-on-error" if stop_kind in UNSUCCESSFUL else "retry-on-timeout"
            out.append(("no-retry-when-disabled", f"{desc}: retried after '{stop_kind}' in attempt {n_exp} although {which} is off"))
        else:
            out.append(("non-retryable-propagates", f"{desc}: '{stop_kind}' in attempt {n_exp} is not retryable (neither timeout / connection error nor unsuccessful result) but {n_got - n_exp} more attempt(s) followed, the next one {got['gaps'][n_exp - 1] if len(got['gaps']) >= n_exp else '?'}s later"))
        return out
    if n_got < n_exp:
        k = kind_at(script, n_got - 1) if n_got else None
        clause = "unbounded-until-success" if e["until"] else "retries-when-enabled"
        out.append((clause, f"{desc}: gave up after {n_got} attempt(s) ('{k}') where the configuration asks for a retry ({n_exp} attempts expected)"))
        return out
    # -- same number of attempts: waits, arguments, final outcome
    for i, w in enumerate(exp["waits"]):
        ctx.clause("wait-period")
        if i >= len(got["gaps"]) or not close(got["gaps"][i], w):
            g = got["gaps"][i] if i < len(got["gaps"]) else None
            out.append(("wait-period", f"{desc}: waited {g!r}s instead of retry-wait-period={w}s between attempt {i + 1} ('{kind_at(script, i)}') and attempt {i + 2}"))
            break
    ctx.clause("same-arguments", n_got)
    for i, (a_es, a_params) in enumerate(delegate.args):
        if a_es is not es or a_params != passed_params:
            out.append(("same-arguments", f"{desc}: attempt {i + 1} was not invoked with the operation's client and parameters"))
            break
    ctx.clause("final-outcome")
    if not same_final(exp["final"], got["final"]):
        em, ei = exp["final"]
        gm, gi = got["final"]
        what = f"{gm}ed the product of attempt {gi + 1}" if gi is not None else f"{gm}ed something no attempt produced ({got.get('foreign')})"
        out.append(("final-outcome", f"{desc}: should {em} exactly what attempt {ei + 1} ('{kind_at(script, ei)}') produced but {what}"))
    return out


# ---------------------------------------------------------------------------------------------------------------------
# parameter grid
GRID = {
    "retries": [0, 1, 2, 3, 4, 5, 6],
    "retry-until-success": [None, True, False],
    "ctor": [False, True],
    "retry-wait-period": [None, 0, 0.5, 3],
    "retry-on-timeout": [None, True, False],
    "retry-on-error": [None, True, False],
}
GRID_KEYS = list(GRID)
FULL_GRID = list(itertools.product(*[GRID[k] for k in GRID_KEYS]))  # 1512


def combo_to_params(combo, drop_retries_zero=False):
    d = dict(zip(GRID_KEYS, combo))
    ctor = d.pop("ctor")
    params = {k: v for k, v in d.items() if v is not None}
    if drop_retries_zero and params.get("retries") == 0:
        del params["retries"]  # exercise the documented default
    return params, ctor


def sample_combo(rng, need):
    """A parameter combination; half of the time from the family that lets a failing sequence of `need` attempts run to its end."""
    if rng.random() < 0.5:
        until_mode = rng.choice(["no", "no", "no", "no", "param", "ctor"])
        lo = min(6, max(0, need - 1 + rng.choice([-1, 0, 0, 1])))
        return (
            rng.choice([r for r in GRID["retries"] if r >= lo]),
            True if until_mode == "param" else None,
            until_mode == "ctor",
            rng.choice(GRID["retry-wait-period"]),
            rng.choice([None, True, True, False]),
            rng.choice([True, True, True, None, False]),
        )
    return tuple(rng.choice(GRID[k]) for k in GRID_KEYS)


# ---------------------------------------------------------------------------------------------------------------------
class Switch:
    """Delegate of a long-lived Retry instance: forwards to the scripted delegate of the current invocation."""

    def __init__(self):
        self.current = None

    def __repr__(self):
        return "scripted-delegate"

    async def __aenter__(self):
        return self

    async def __aexit__(self, *a):
        return False

    async def __call__(self, es, params):
        inv = params.get("verif-invocation") if isinstance(params, dict) else None
        if inv is not None and inv in self.by_invocation:
            return await self.by_invocation[inv](es, params)
        return await self.current(es, params)

    by_invocation = {}


class Env:
    def __init__(self):
        logging.disable(logging.CRITICAL)
        self.loop = VirtualLoop()
        asyncio.set_event_loop(self.loop)
        self.es = object()
        # Rally registers ONE Retry instance per operation type and uses it for every task, client and request of that type:
        # half of the cases therefore run on an instance that has already served other invocations (other parameters, other outcomes)
        self.shared = {}   # ctor_until -> (Retry, Switch, [last invocations])
        self.counter = 0
        self.shared_invocations = 0
        self.recent = []

    def shared_retrier(self, ctor_until):
        if ctor_until not in self.shared:
            sw = Switch()
            self.shared[ctor_until] = (runner.Retry(sw, retry_until_success=ctor_until), sw, [])
        return self.shared[ctor_until]


class _Null:
    def clause(self, *a, **k):
        pass


def evaluate(ctx, env, script, params, ctor_until, durations, retrier=None, switch=None):
    """One lock-step run of the reference and the real Retry -> (expected, observed, problems).
    With `retrier`/`switch` the invocation runs on that (used) Retry instance instead of a fresh one."""
    exp = reference(script, params, ctor_until)
    delegate = Scripted(env.loop, script, durations)
    if retrier is None:
        retrier = runner.Retry(delegate, retry_until_success=ctor_until)
    else:
        switch.current = delegate
    passed = dict(params)
    snapshot = dict(params)

    async def call():
        return await retrier(env.es, passed)

    got = observe(env.loop, call, delegate)
    return exp, got, compare(ctx, script, params, ctor_until, exp, got, delegate, env.es, snapshot)


HISTORY = 4


def evaluate_concurrently(ctx, env, cases, ctor_until):
    """Several invocations at the same time on ONE Retry instance - the clients of a worker, the tasks of a parallel element and the streams of a
    composite all call the one registered instance as concurrent asyncio tasks. Every invocation must behave as if it were alone.
    cases: [(script, params, durations)]. -> [(index, witness, message)]"""
    sw = Switch()
    sw.by_invocation = {}
    retrier = runner.Retry(sw, retry_until_success=ctor_until)
    delegates, passed, snaps = [], [], []
    for i, (script, params, durations) in enumerate(cases):
        d = Scripted(env.loop, list(script), durations)
        sw.by_invocation[i] = d
        delegates.append(d)
        p = dict(params)
        p["verif-invocation"] = i
        passed.append(p)
        snaps.append(dict(p))
    env.loop.now = 0.0
    results = [None] * len(cases)

    async def one(i):
        try:
            results[i] = ("return", await retrier(env.es, passed[i]))
        except Abort:
            results[i] = ("abort", None)
        except BaseException as e:  # pylint: disable=broad-except
            if isinstance(e, (KeyboardInterrupt, SystemExit)):
                raise
            results[i] = ("raise", e)

    async def main():
        await asyncio.gather(*[one(i) for i in range(len(cases))])

    env.loop.run_until_complete(main())
    out = []
    for i, (script, params, durations) in enumerate(cases):
        d = delegates[i]
        exp = reference(list(script), params, ctor_until)
        mode, obj = results[i]
        if mode == "abort":
            got = {"attempts": len(d.starts), "gaps": [], "final": ("abort", None), "aborted": True}
        else:
            idx = [j for j, pr in enumerate(d.produced) if pr is obj]
            if obj is None and mode == "return":
                idx = [j for j in idx if j == len(d.produced) - 1] or idx
            which = idx[-1] if idx else None
            gaps = [d.starts[j + 1] - d.ends[j] for j in range(len(d.starts) - 1) if j < len(d.ends)]
            got = {"attempts": len(d.starts), "gaps": gaps, "final": (mode, which), "foreign": None if which is not None else f"{type(obj).__name__}: {str(obj)[:120]}"}
        ctx.clause("invocation-independent")
        problems = compare(_Null(), list(script), params, ctor_until, exp, got, d, env.es, snaps[i])
        if problems:
            w = witness_of(list(script), params, ctor_until, durations, exp, got)
            w["concurrent_invocations_on_the_same_instance"] = [{"script": [kind_at(list(sc), k) for k in range(min(12, max(1, reference(list(sc), pa, ctor_until)["attempts"])))], "params": pa, "durations": list(du[:12])} for sc, pa, du in cases]
            w["index_of_this_invocation"] = i
            out.append((i, w, f"invocation {i + 1} of {len(cases)} running concurrently on one Retry instance: {problems[0][1]}"))
    return out


def evaluate_on_used_instance(ctx, env, script, params, ctor_until, durations):
    """The same invocation on the long-lived instance. A deviation that a fresh instance does not show is a dependence on earlier
    invocations (clause invocation-independent); the witness carries the shortest suffix of the instance's history that reproduces it."""
    retrier, sw, hist = env.shared_retrier(ctor_until)
    env.shared_invocations += 1
    exp, got, problems = evaluate(ctx, env, script, params, ctor_until, durations, retrier, sw)
    ctx.clause("invocation-independent")
    before = list(hist)
    hist.append({"script": [kind_at(script, i) for i in range(min(max(exp["attempts"], 1), CAP))], "params": dict(params), "durations": list(durations[:CAP])})
    del hist[:-HISTORY]
    if not problems:
        return None
    _, _, fresh = evaluate(_Null(), env, script, params, ctor_until, durations)
    if fresh:
        return None  # not a matter of history: reported by the fresh-instance run of the same case
    for k in range(1, len(before) + 1):
        sw2 = Switch()
        r2 = runner.Retry(sw2, retry_until_success=ctor_until)
        for h in before[-k:]:
            evaluate(_Null(), env, h["script"], h["params"], ctor_until, h["durations"], r2, sw2)
        exp2, got2, again = evaluate(_Null(), env, script, params, ctor_until, durations, r2, sw2)
        if again:
            w = witness_of(script, params, ctor_until, durations, exp2, got2)
            w["earlier_invocations_on_the_same_instance"] = before[-k:]
            return w, f"after {k} earlier invocation(s) on the same Retry instance (last one with {before[-1]['params']}): {again[0][1]}"
    w = witness_of(script, params, ctor_until, durations, exp, got)
    w["earlier_invocations_on_the_same_instance"] = before
    return w, f"on a Retry instance that served earlier invocations (not reproduced from the last {len(before)}): {problems[0][1]}"


def witness_of(script, params, ctor_until, durations, exp, got):
    n = max(exp["attempts"], min(got["attempts"], CAP))
    case = {"script": [kind_at(script, i) for i in range(n)], "params": params, "ctor_until": ctor_until, "durations": [durations[i] if i < len(durations) else 0 for i in range(n)]}
    return {"case": case, "expected": exp, "observed": {k: got.get(k) for k in ("attempts", "gaps", "final", "foreign")}}


def run_case(ctx, env, script, params, ctor_until, durations, tag=None):
    script = list(script)
    exp, got, problems = evaluate(ctx, env, script, params, ctor_until, durations)
    e = effective(params, ctor_until)
    consumed = [kind_at(script, i) for i in range(exp["attempts"])]
    feats = features_of(script, params, ctor_until, exp, e, durations)
    nontrivial = exp["attempts"] >= 2 or exp["stop"] != "success"
    ctx.case((consumed, sorted(params.items()), ctor_until), nontrivial, feats)
    ctx.distinct("behaviours", (consumed, e["max"], e["on_error"], e["on_timeout"], e["wait"]))
    if tag and exp["attempts"] <= 12:
        ctx.sample(witness_of(script, params, ctor_until, durations, exp, got), tag=tag)
    for clause, msg in problems[:2]:
        w = witness_of(script, params, ctor_until, durations, exp, got)
        # smaller witness: cut the script where the statement stops (every script continues with successes)
        short = script[: exp["attempts"]]
        if len(short) < len(w["case"]["script"]):
            exp2, got2, problems2 = evaluate(_Null(), env, short, params, ctor_until, durations)
            same = [m for c, m in problems2 if c == clause]
            if same:
                w, msg = witness_of(short, params, ctor_until, durations, exp2, got2), same[0]
        ctx.violation(clause, w, msg)
    env.counter += 1
    if not problems and exp["attempts"] <= 8:
        env.recent.append((list(script[: max(1, exp["attempts"])]), dict(params), list(durations[:CAP]), ctor_until))
        del env.recent[:-3]
    if env.counter % 16 == 5 and not problems and exp["attempts"] >= 2:
        # this invocation together with up to two earlier (problem-free) ones of the same constructor default, all at once on one instance;
        # every attempt takes time and every wait is a suspension point, so the invocations interleave
        mates = [(sc, pa, du or [0.25] * len(sc)) for sc, pa, du, cu in env.recent[:-1] if cu == ctor_until][:2]
        if mates:
            mine = (list(script[: exp["attempts"]]), dict(params), [x or 0.25 for x in (list(durations) + [0] * exp["attempts"])[: exp["attempts"]]])
            group = [mine] + [(sc, pa, [x or 0.25 for x in (list(du) + [0] * len(sc))[: len(sc)]]) for sc, pa, du in mates]
            # each alone first (the durations differ from the first run); then together
            alone_ok = all(not evaluate_concurrently(_Null(), env, [g], ctor_until) for g in group)
            if alone_ok:
                for i, w, msg in evaluate_concurrently(ctx, env, group, ctor_until)[:1]:
                    ctx.violation("invocation-independent", w, msg)
                    ctx.feature("concurrent-deviation")
                ctx.feature("concurrent-groups")
    if env.counter % 2 == 0 and not problems:
        dep = evaluate_on_used_instance(ctx, env, script, params, ctor_until, durations)
        if dep:
            ctx.violation("invocation-independent", dep[0], dep[1])
            ctx.feature("used-instance-deviation")
    return problems


def features_of(script, params, ctor_until, exp, e, durations):
    f = set()
    kinds = [kind_at(script, i) for i in range(exp["attempts"])]
    retried = kinds[:-1]
    if any(k in TIMEOUTISH for k in retried):
        f.add("retried-after-timeout")
    if "api408" in retried:
        f.add("api-408-retried")
    if "stimeout" in retried:
        f.add("socket-timeout-retried")
    if "fail" in retried:
        f.add("retried-after-unsuccessful")
    if e["until"]:
        f.add("until-success")
        if exp["attempts"] >= 20:
            f.add("until-success>=20-attempts")
    last = kinds[-1]
    if exp["stop"] == "last-attempt":
        f.add("last-attempt-raises" if exp["final"][0] == "raise" else "last-attempt-returns-unsuccessful")
    if last in API_OTHER:
        f.add("api-error-not-408")
    if last in OTHER_TRANSPORT:
        f.add("other-transport-error")
    if last in FOREIGN:
        f.add("non-es-exception")
    if exp["stop"] == "disabled":
        f.add("error-off" if last in UNSUCCESSFUL else "timeout-off")
    if exp["waits"]:
        if "retry-wait-period" not in params:
            f.add("wait-default")
        elif params["retry-wait-period"] == 0:
            f.add("wait-0")
        if any(durations[: exp["attempts"]]):
            f.add("slow-attempts")
    if ctor_until:
        f.add("ctor-until-overridden" if params.get("retry-until-success") is False else "ctor-until-default")
    return f


def durations_for(rng, n):
    if rng.random() < 0.5:
        return [0] * n
    return [rng.choice([0, 0, 0.25, 1.0, 0.001]) for _ in range(n)]


# ---------------------------------------------------------------------------------------------------------------------
# which operations are wrapped
def documented_retryable():
    """docs/track.rst: operation sections (titles underlined with ~) that contain 'This operation is :ref:`retryable'."""
    lines = TRACK_RST.read_text(encoding="utf-8").split("\n")
    ops, cur = {}, None
    for i, l in enumerate(lines):
        if i + 1 < len(lines) and l.strip() and re.fullmatch(r"~{3,}", lines[i + 1]):
            cur = l.strip()
            ops[cur] = {"retryable": False, "until_default": False}
        if cur and "is :ref:`retryable" in l:
            ops[cur]["retryable"] = True
            if "wait by default until" in l:
                ops[cur]["until_default"] = True
    return ops


def chain_of(r):
    out = [r]
    while getattr(out[-1], "delegate", None) is not None:
        out.append(out[-1].delegate)
    return out


def check_param_sources(ctx, marked):
    """The retry settings are written in the track as parameters of the operation; between the track and the Retry wrapper sits the
    operation's parameter source. For every operation documented as retryable the settings must come out of params() as they went in."""
    from esrally.track import params as track_params
    from esrally.track import track

    settings = {"retries": 3, "retry-wait-period": 2, "retry-on-timeout": False, "retry-on-error": True, "retry-until-success": False}
    body = {"index_patterns": ["idx*"], "template": {"settings": {}}}
    trk = track.Track(
        "verif", indices=[track.Index("idx", body={"settings": {}})], data_streams=[track.DataStream("ds")],
        templates=[track.IndexTemplate("tpl", "idx*", {"index_patterns": ["idx*"], "settings": {}})],
        component_templates=[track.ComponentTemplate("ct", {"template": {"settings": {}}})],
        composable_templates=[track.IndexTemplate("cit", "idx*", body)],
    )
    for op in marked:
        op_params = dict(settings)
        op_params["operation-type"] = op
        try:
            source = track_params.param_source_for_operation(op, trk, op_params, "task-" + op)
            out = source.partition(0, 1).params()
        except Exception:  # pylint: disable=broad-except
            # needs operation specific parameters the fixture does not have (documented per operation): not judged
            ctx.feature("param-source-not-built")
            continue
        ctx.clause("retry-settings-reach-the-runner")
        ctx.feature("param-source-probes")
        lost = sorted(k for k, v in settings.items() if not isinstance(out, dict) or out.get(k) != v)
        if lost:
            ctx.violation("retry-settings-reach-the-runner", {"operation": op, "param_source": type(source).__name__, "lost": lost},
                          f"operation type {op} is documented as retryable, but its parameter source ({type(source).__name__}) does not hand the retry settings {lost} on to the runner: "
                          f"whatever the task configures, the operation is attempted once")


def check_registration(ctx, env):
    from esrally.track import track

    if not TRACK_RST.exists():
        ctx.mark_inconclusive(f"{TRACK_RST} not found: cannot read which operations are documented as retryable")
        return
    docs = documented_retryable()
    runner.register_default_runners()
    known = {t.to_hyphenated_string() for t in track.OperationType}
    marked = sorted(op for op, d in docs.items() if d["retryable"])
    if len(marked) < 10:
        ctx.mark_inconclusive(f"only {len(marked)} operations found as 'retryable' in {TRACK_RST}: parser out of date?")
    check_param_sources(ctx, marked)
    undocumented = []
    probes = [
        (["cerror", "fail", "ok"], {"retries": 2, "retry-on-error": True, "retry-wait-period": 3}),
        (["ctimeout", "ctimeout", "ok"], {"retries": 1, "retry-wait-period": 0.5}),
        (["fail", "ok"], {"retries": 3}),
        (["fail", "fail", "fail", "ok"], {}),
        (["fail", "ok"], {"retry-until-success": False, "retries": 4, "retry-on-error": True}),
        (["api404", "ok"], {"retries": 3, "retry-on-error": True}),
    ]
    for op in sorted(known):
        try:
            registered = runner.runner_for(op)
        except exceptions.RallyError:
            registered = None
        is_marked = docs.get(op, {}).get("retryable", False)
        if registered is None:
            if is_marked:
                ctx.clause("documented-retryable-retries")
                ctx.violation("documented-retryable-retries", {"operation": op}, f"operation type {op} is documented as retryable but no runner is registered for it")
            continue
        chain = chain_of(registered)
        wrapped = any(isinstance(c, runner.Retry) for c in chain)
        if wrapped and not is_marked and op in docs:
            undocumented.append(op)
        if not is_marked:
            continue
        ctor_until = docs[op]["until_default"]
        if len(chain) < 2:
            ctx.mark_inconclusive(f"registered runner for {op} has no delegate chain to substitute the scripted delegate into")
            continue
        parent, innermost = chain[-2], chain[-1]
        for script, params in probes:
            delegate = Scripted(env.loop, script, [0.25] * len(script))
            parent.delegate = delegate
            try:
                exp = reference(script, params, ctor_until)
                passed = dict(params)
                clients = {"default": env.es}

                async def call():
                    return await registered(clients, passed)

                got = observe(env.loop, call, delegate)
            finally:
                parent.delegate = innermost
            ctx.clause("documented-retryable-retries")
            ctx.feature("registered-runner-probes")
            ok = got["attempts"] == exp["attempts"] and same_final(exp["final"], got["final"]) and len(got["gaps"]) == len(exp["waits"]) and all(
                close(g, w) for g, w in zip(got["gaps"], exp["waits"])
            )
            if not ok:
                ctx.violation(
                    "documented-retryable-retries",
                    {"operation": op, "case": {"script": script, "params": params, "ctor_until": ctor_until, "durations": [0.25] * len(script)}, "expected": exp,
                     "observed": {k: got.get(k) for k in ("attempts", "gaps", "final", "foreign")}, "retry_in_chain": wrapped},
                    f"docs/track.rst marks {op} as retryable{' (until success by default)' if ctor_until else ''} but its registered runner, given outcomes {script} and {params}, "
                    f"made {got['attempts']} attempt(s) with waits {got['gaps']} (expected {exp['attempts']} with {exp['waits']})",
                )
    ctx.feature("documented-retryable-operations", len(marked))
    ctx.note(f"documented as retryable and checked through their registered runner: {len(marked)} operation types")
    if undocumented:
        ctx.note(f"wrapped in Retry by register_default_runners but not marked retryable in docs/track.rst (not demanded by the docs, not reported): {undocumented}")
    unknown = [op for op in marked if op not in known]
    if unknown:
        ctx.note(f"marked retryable in the docs but not an OperationType: {unknown}")


# ---------------------------------------------------------------------------------------------------------------------
def sequences_upto(n):
    for length in range(0, n + 1):
        yield from itertools.product(ALPHABET, repeat=length)


def overdue(ctx):
    """The enumerated parts are finished even when the machine is busy (they need a few CPU seconds per shard); they are only abandoned -
    and the run reported inconclusive - at 2.5x the time budget, well before the runner's watchdog (3x + 120 s)."""
    return ctx.time_left() < -1.5 * float(ctx.budget.get("seconds", 40))


def run_shard(ctx):
    env = Env()
    if ctx.shard == 0:
        check_registration(ctx, env)
    quick = ctx.tier == "quick"
    a_len, b_len, b_samples = (2, 5, 6) if quick else (3, 6, 6)
    # ---- a first slice of part C, so that the extended alphabet is exercised even if the time budget is short
    i = 0
    while i < 3000 and ctx.time_left() > 0:
        random_case(ctx, env, ctx.case_rng(f"C{i}"), i)
        i += 1
    # ---- a first slice of the client class (rally's real client between the retry loop and the wire)
    import sys

    from props import c16_client

    for j in range(25):
        if ctx.time_left() <= 0:
            break
        c16_client.one_case(ctx, sys.modules[__name__], ctx.case_rng(f"K0-{j}"))
    asyncio.set_event_loop(env.loop)
    # ---- part A: short sequences x the full parameter grid
    idx, mine, done = 0, 0, True
    for seq in sequences_upto(a_len):
        for ci, combo in enumerate(FULL_GRID):
            idx += 1
            if idx % ctx.nshards != ctx.shard:
                continue
            mine += 1
            if mine % 256 == 0 and overdue(ctx):
                done = False
                break
            params, ctor = combo_to_params(combo, drop_retries_zero=(ci % 2 == 1))
            dur = [0.25 if (idx // ctx.nshards) % 3 == 0 else 0] * len(seq)
            run_case(ctx, env, seq, params, ctor, dur, tag=("A:" + "+".join(seq) if idx % 50021 == 0 else None))
        if not done:
            break
    ctx.exhaustive[f"A: all sequences up to length {a_len} x all {len(FULL_GRID)} parameter combinations"] = done
    if done:
        ctx.feature("partA-done")
    # ---- part B: all sequences up to b_len x sampled parameter combinations
    done = True
    for si, seq in enumerate(sequences_upto(b_len)):
        if si % ctx.nshards != ctx.shard:
            continue
        if (si // ctx.nshards) % 512 == 0 and overdue(ctx):
            done = False
            break
        rng = ctx.case_rng(f"B{si}")
        # sequences of the largest length (11^5 / 11^6 of them) get one sample each
        k = b_samples if len(seq) < b_len else max(1, b_samples // 6)
        for j in range(k):
            params, ctor = combo_to_params(sample_combo(rng, len(seq) + 1), drop_retries_zero=rng.random() < 0.5)
            run_case(ctx, env, seq, params, ctor, durations_for(rng, len(seq) + 1), tag=("B:" + str(len(seq)) if si % 9973 == 0 and j == 0 else None))
    ctx.exhaustive[f"B: all sequences up to length {b_len} x sampled parameter combinations"] = done
    if done:
        ctx.feature("partB-done")
    # ---- part C: random long sequences, extended alphabet, long retry-until-success runs; one case in 400 goes through rally's real client
    import sys

    from props import c16_client

    me = sys.modules[__name__]
    while ctx.more():
        if i % 400 == 7:
            c16_client.one_case(ctx, me, ctx.case_rng(f"K{i}"))
            asyncio.set_event_loop(env.loop)
        else:
            random_case(ctx, env, ctx.case_rng(f"C{i}"), i)
        i += 1


def random_case(ctx, env, rng, i):
    mode = rng.choice(["mixed", "mixed", "failing", "until-long", "until"])
    failing = [k for k in EXTENDED if k in TIMEOUTISH or k in UNSUCCESSFUL]
    if mode == "mixed":
        script = [rng.choice(EXTENDED) for _ in range(rng.randint(1, 12))]
    elif mode == "failing":
        script = [rng.choice(failing) for _ in range(rng.randint(1, 11))] + [rng.choice(EXTENDED)]
    else:
        n = rng.randint(20, 63) if mode == "until-long" else rng.randint(1, 19)
        pool = failing if rng.random() < 0.8 else failing + ["api404", "ser", "ok-nokey"]
        script = [rng.choice(pool) for _ in range(n)] + ["ok"]
    if mode.startswith("until"):
        ctor = rng.random() < 0.5
        params = {} if ctor else {"retry-until-success": True}
        if rng.random() < 0.5:
            params["retries"] = rng.choice(GRID["retries"])
        if rng.random() < 0.3:
            params["retry-on-error"] = rng.choice([True, False])
        if rng.random() < 0.3:
            params["retry-on-timeout"] = True
        w = rng.choice(GRID["retry-wait-period"])
        if w is not None:
            params["retry-wait-period"] = w
    else:
        params, ctor = combo_to_params(sample_combo(rng, len(script)), drop_retries_zero=rng.random() < 0.5)
    run_case(ctx, env, script, params, ctor, durations_for(rng, len(script)), tag=(f"C:{mode}" if i % 997 == 0 else None))


# ---------------------------------------------------------------------------------------------------------------------
def classify(v):
    """Known finding: a TransportError that is neither a connection error / timeout nor an API error (SerializationError, SniffingError,
    bare TransportError) is retried - and without the wait period - when retry-on-timeout is on. Recognised only if the WHOLE observed run
    is what the statement prescribes with exactly that one change; any other deviation in the same run stays a violation."""
    w = v["witness"]
    if v["clause"] != "non-retryable-propagates" or "case" not in w or "operation" in w:
        return None
    case, exp, got = w["case"], w["expected"], w["observed"]
    stop_kind = kind_at(case["script"], exp["attempts"] - 1)
    if stop_kind not in OTHER_TRANSPORT:
        return None
    alt = reference(case["script"], case["params"], case["ctor_until"], retry_other_transport_without_wait=True)
    same = (
        got["attempts"] == alt["attempts"]
        and list(got["final"]) == list(alt["final"])
        and len(got["gaps"]) == len(alt["waits"])
        and all(close(g, x) for g, x in zip(got["gaps"], alt["waits"]))
    )
    return "other-transport-error-retried-without-wait" if same else None


def replay(ctx, rec):
    w = rec["witness"]
    env = Env()
    if "operation" in w:
        check_registration(ctx, env)
        return
    if w.get("class") == "client":
        import sys

        from props import c16_client

        c16_client.one_case(ctx, sys.modules[__name__], None, explicit=w["case"])
        return
    c = w["case"]
    dur = c.get("durations") or [0] * len(c["script"])
    if "concurrent_invocations_on_the_same_instance" in w:
        group = [(h["script"], h["params"], h["durations"] + [0.25] * max(0, len(h["script"]) - len(h["durations"]))) for h in w["concurrent_invocations_on_the_same_instance"]]
        for i, w2, msg in evaluate_concurrently(ctx, env, group, c["ctor_until"])[:1]:
            ctx.violation("invocation-independent", w2, msg)
        return
    if "earlier_invocations_on_the_same_instance" in w:
        retrier, sw, hist = env.shared_retrier(c["ctor_until"])
        for h in w["earlier_invocations_on_the_same_instance"]:
            evaluate(_Null(), env, h["script"], h["params"], c["ctor_until"], h["durations"], retrier, sw)
            hist.append(h)
        dep = evaluate_on_used_instance(ctx, env, c["script"], c["params"], c["ctor_until"], dur)
        if dep:
            ctx.violation("invocation-independent", dep[0], dep[1])
        return
    run_case(ctx, env, c["script"], c["params"], c["ctor_until"], dur)


MANIFEST = {
    "text": "Fault enumeration: the real runner.Retry drives a scripted delegate on a virtual-time asyncio loop for every outcome sequence over an 11-letter alphabet "
    "(success, unsuccessful dict, tuple, None, ConnectionTimeout, ConnectionError, socket.timeout, HTTP 408, other API error, SerializationError, bare TransportError) "
    "up to length 5 (quick) / 6 (thorough) with sampled retry parameters, up to length 2 / 3 with the full grid of 1512 parameter combinations, plus seeded random sequences up to "
    "length 12 and retry-until-success runs of up to 64 attempts; a reference interpreter of the statement is compared in lock-step (attempt count, waits on the virtual clock, "
    "arguments, identity of the result / exception). Groups of up to three invocations also run concurrently on one instance, and one case in 400 runs a cluster-health task through rally's real executor, registered runner, asynchronous client and elastic-transport against the simulated node (HTTP answers whose error bodies come in six shapes). Every second invocation is repeated on a long-lived Retry instance that has served the preceding invocations (Rally registers one instance per operation type): a deviation that a fresh instance does not show is a dependence on earlier invocations. Every operation docs/track.rst marks as retryable is driven through its registered runner. Holds on the sequences enumerated, not beyond.",
    "note": "Trusts the 30-line reference interpreter, the outcome classification stated in the assumptions (408 = timeout; non-dict = success) and the virtual clock of the loop. "
    "Known finding: non-connection TransportErrors are retried without wait.",
    "technique": "runtime monitor: reference-model oracle in lock-step with the real retry loop over an exhaustively enumerated fault alphabet, virtual time",
    "design_ref": "DESIGN.md section 4 C16",
}
