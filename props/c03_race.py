"""C03 end-to-end class: a bulk task runs through a complete simulated race.

A generated corpus (every document carries its line number) sits next to a generated track; rally's real CLI, track preparation
(offset tables), driver, workers, AsyncIoAdapter (one shared parameter source per task and worker), BulkIndexParamSource, bulk
runner and async client run for real (engines.race). The bodies that reach the simulated `_bulk` endpoint are the history: every
emitted document identifies its source line, so exactly-once, bulk size and pairing are checked against the file.
"""
import json
import os
import time as _t

from engines import race
from props import c01


def gen_case(rng):
    ndocs = rng.choice([1, 7, 60, 333, 1000, 2500])
    clients = rng.choice([1, 2, 3, 4, 8])
    bulk = rng.choice([1, 7, 50, 100, 500])
    case = {
        "e2e_bulk": {"ndocs": ndocs, "clients": clients, "bulk_size": bulk, "with_meta": rng.random() < 0.3, "multibyte": rng.random() < 0.5,
                     "ingest_percentage": rng.choice([None, None, None, 50, 33.3]),
                     # batch-size: the reader hands out several bulks per read; throttled: the executor sleeps between asking the (shared)
                     # parameter source for a bulk and sending it, so co-located clients ask for their bulks in between
                     "batch_factor": rng.choice([None, None, 2, 5]), "throttle_per_client": rng.choice([None, None, 2, 20]),
                     # a second bulk task on another corpus in the same parallel element: its clients have global indices that differ from
                     # their index in the task (driver.schedule_for partitions by the index in the task)
                     "second": ({"ndocs": rng.choice([5, 120, 700]), "clients": rng.choice([1, 2, 3])} if rng.random() < 0.4 else None)},
        "elements": [], "hosts": ["localhost"] + (["10.0.0.2"] if rng.random() < 0.3 else []), "cores": rng.choice([1, 2, 3]),
        "test_mode": False, "delay": rng.choice(["zero", "small", "heavy"]), "epsilon": rng.choice([0.0, 0.5]), "wakeup_jitter": 0.0,
        "clock_offsets": True, "seed": rng.randint(0, 1 << 40), "keep_bodies": True,
    }
    if case["e2e_bulk"]["second"] and rng.random() < 0.4:
        case["e2e_bulk"]["second"] = {"same_op": True, "ndocs": ndocs, "clients": rng.choice([clients, clients, max(1, clients - 1)])}
    return case


def doc_line(i, multibyte, tag="A"):
    pad = ("é" * (i % 7) + "日本") if multibyte and i % 3 == 0 else "x" * (i % 5)
    return json.dumps({"n": i, "c": tag, "pad": pad}, ensure_ascii=False)


def corpus_bytes(ndocs, with_meta, multibyte, tag):
    lines = []
    for i in range(ndocs):
        if with_meta:
            lines.append(json.dumps({"index": {"_index": "idx" + tag, "_id": str(i)}}))
        lines.append(doc_line(i, multibyte, tag))
    return ("\n".join(lines) + "\n").encode("utf-8")


def write_track(case, directory):
    spec = case["e2e_bulk"]
    os.makedirs(directory, exist_ok=True)
    corpora, ops, tasks, indices = [], [], [], []
    same_op = bool(spec.get("second") and spec["second"].get("same_op"))
    parts = [("A", spec["ndocs"], spec["clients"])] + ([("B", spec["second"]["ndocs"], spec["second"]["clients"])] if spec.get("second") and not same_op else [])
    for tag, ndocs, clients in parts:
        data = corpus_bytes(ndocs, spec["with_meta"], spec["multibyte"], tag)
        with open(os.path.join(directory, f"docs{tag}.json"), "wb") as f:
            f.write(data)
        docs = {"source-file": f"docs{tag}.json", "document-count": ndocs, "uncompressed-bytes": len(data), "target-index": "idx" + tag}
        if spec["with_meta"]:
            docs["includes-action-and-meta-data"] = True
        corpora.append({"name": "corpus" + tag, "documents": [docs]})
        indices.append({"name": "idx" + tag})
        op = {"name": "bulk" + tag, "operation-type": "bulk", "bulk-size": spec["bulk_size"], "corpora": "corpus" + tag}
        if spec["ingest_percentage"] is not None:
            op["ingest-percentage"] = spec["ingest_percentage"]
        if spec.get("batch_factor"):
            op["batch-size"] = spec["bulk_size"] * spec["batch_factor"]
        ops.append(op)
        task = {"operation": "bulk" + tag, "clients": clients}
        if spec.get("throttle_per_client"):
            task["target-throughput"] = spec["throttle_per_client"] * clients
        tasks.append(task)
    if same_op:
        # a second, differently named task on the SAME operation in the same parallel element: every task ingests the corpus on its own
        tasks[0]["name"] = "bulkA-first"
        tasks.append(dict(tasks[0], name="bulkA-again", clients=spec["second"]["clients"]))
        if spec.get("throttle_per_client"):
            tasks[1]["target-throughput"] = spec["throttle_per_client"] * spec["second"]["clients"]
    schedule = [tasks[0]] if len(tasks) == 1 else [{"parallel": {"tasks": tasks}}]
    trk = {"version": 2, "description": "verif bulk track", "indices": indices, "corpora": corpora, "operations": ops,
           "challenges": [{"name": "c", "default": True, "schedule": schedule}]}
    with open(os.path.join(directory, "track.json"), "w") as f:
        json.dump(trk, f)
    return directory


def race_case(ctx, rng, explicit=None):
    case = explicit or gen_case(rng)
    spec = case["e2e_bulk"]
    orig_write = race.write_track
    race.write_track = lambda c, d: write_track(c, d)
    try:
        tr = race.run_race(dict(case, wall_deadline=_t.monotonic() + max(15.0, ctx.time_left() + 10.0)), ctx.scratch, instrument=c01.instrument)
    finally:
        race.write_track = orig_write
    feats = {"e2e", "e2e:clients>1" if spec["clients"] > 1 else "e2e:single-client"}
    if tr.budget:
        ctx.feature("budget-exceeded")
        ctx.case(["e2e", case], False, ())
        return
    problems = []
    ctx.clause("e2e:race-succeeds")
    if tr.exit_status != "SUCCESSFUL" or tr.stalled:
        problems.append(("e2e:race-succeeds", f"bulk race with {spec} ended with {tr.exit_status} (stalled: {tr.stalled}); console tail {tr.console[-300:]!r}", None))
    else:
        seen = {}
        per_client = {}
        for r in tr.sim.log:
            if not r["path"].endswith("_bulk") or r["body"] is None:
                continue
            lines = [l for l in r["body"].split(b"\n") if l]
            ctx.clause("e2e:pairing")
            if len(lines) % 2 != 0:
                problems.append(("e2e:pairing", f"client {r['client']}: bulk body with an odd number of lines ({len(lines)})", None))
                continue
            ctx.clause("e2e:bulk-size-bound")
            if len(lines) // 2 > spec["bulk_size"]:
                problems.append(("e2e:bulk-size-bound", f"client {r['client']}: bulk with {len(lines) // 2} documents, bulk-size is {spec['bulk_size']}", None))
            for a, d in zip(lines[0::2], lines[1::2]):
                try:
                    action = json.loads(a)
                    doc = json.loads(d)
                    n = doc["n"]
                    tag = doc["c"]
                except Exception:
                    problems.append(("e2e:pairing", f"client {r['client']}: action/document lines are shifted: {a[:60]!r} / {d[:60]!r}", None))
                    break
                if "index" not in action or (spec["with_meta"] and action["index"].get("_id") != str(n)):
                    problems.append(("e2e:pairing", f"client {r['client']}: document {n} is preceded by action line {a[:80]!r}", None))
                    break
                if d.decode("utf-8") != doc_line(n, spec["multibyte"], tag):
                    problems.append(("e2e:pairing", f"client {r['client']}: document {n} arrived altered", None))
                    break
                seen[(tag, n)] = seen.get((tag, n), 0) + 1
                per_client.setdefault((r["client"], tag), []).append(n)
        if spec["ingest_percentage"] is None:
            ctx.clause("e2e:exactly-once")
            same_op = bool(spec.get("second") and spec["second"].get("same_op"))
            times = 2 if same_op else 1
            expected = [("A", i) for i in range(spec["ndocs"])] + ([("B", i) for i in range(spec["second"]["ndocs"])] if spec.get("second") and not same_op else [])
            missing = [k for k in expected if seen.get(k, 0) < times]
            dup = [i for i, c in seen.items() if c > times]
            if missing or dup:
                problems.append(("e2e:exactly-once", f"{spec}: workers {tr.workers}: documents never ingested {missing[:5]} ({len(missing)}), ingested more than once {dup[:5]} ({len(dup)})", None))
        else:
            ctx.clause("e2e:ingest-percentage-subset")
            if any(c > (2 if spec.get("second") and spec["second"].get("same_op") else 1) for c in seen.values()):
                problems.append(("e2e:ingest-percentage-subset", f"{spec}: documents ingested more than once under ingest-percentage", None))
        ctx.clause("e2e:client-order")
        for c, ns in per_client.items():
            if ns != sorted(ns):
                problems.append(("e2e:client-order", f"client {c} sent documents out of file order: {ns[:10]}", None))
                break
        if len(tr.workers) > 1:
            feats.add("e2e:multi-worker")
        if spec.get("second"):
            feats.add("e2e:two-bulk-tasks-in-parallel")
            if spec["second"].get("same_op"):
                feats.add("e2e:two-tasks-on-one-operation")
        if spec.get("batch_factor") and spec.get("throttle_per_client") and spec["clients"] > len(tr.workers) and spec["ndocs"] > 2 * spec["bulk_size"]:
            feats.add("e2e:throttled-batches-shared-source")
    ctx.case(["e2e", case], True, feats)
    ctx.sample({"class": "e2e", "spec": spec, "observed": {"workers": tr.workers, "bulk_requests": sum(1 for r in tr.sim.log if r["path"].endswith("_bulk")), "exit_status": tr.exit_status}}, tag="e2e-bulk")
    for clause, msg, detail in problems[:3]:
        ctx.violation(clause, {"workload": "e2e", "case": case}, msg)
