"""C13 helper - generator of team directories / distribution stubs and their materialisation on disk.

A case is a JSON-able `spec` (no absolute paths: the token @ROOT@ stands for the case directory):

  bases   {name: {"vars": [[key, raw, value], ...] | None, "templates": {relpath: {"t": text} | {"b": hex}} | None, "emptydirs": [relpath]}}
  cars    {name: {"meta": {"description": .., "type": ..} | None, "bases": [name, ...] | None, "vars": [[key, raw, value], ...] | None}}
  names   [car name, ...]                 the --car list, in order
  params  {key: value} | None             the --car-params
  node    {"node_name", "cluster_name", "ip", "http_port", "all_ips", "all_names"}
  dist    {"version": "8.1.2", "files": {relpath: hex}}
  prepop  {relpath below <node root>: hex}  content that is on disk before provisioning
  links   {path: target}                   symlinks created before provisioning (hostile data paths)
  preserve_first  bool                     whether cleanup(preserve=True) is exercised before cleanup(preserve=False)

`raw` is what is written into the .ini file, `value` what the documented ini semantics (configparser with ${...}
interpolation, `$$` escape) make of it.
"""
import io
import os
import tarfile

PROTECTED = [
    "cluster_name", "node_name", "node_ip", "network_host", "http_port", "transport_port", "log_path", "heap_dump_path",
    "all_node_ips", "all_node_names", "minimum_master_nodes", "install_root_path",
]
IDENT_KEYS = ["heap_size", "Heap_Size", "gc_opts", "extra", "k1", "k2", "k3", "empty_v", "UPPER"]
DOTTED_KEYS = ["index.buffer", "a.b.c"]
TEXT_EXT = [".yml", ".yaml", ".options", ".properties", ".json", ".txt", ".ini"]
TEXT_FILES = [
    "config/elasticsearch.yml", "config/elasticsearch.yml", "config/jvm.options", "config/log4j2.properties", "config/jvm.options.d/rally.options",
    "config/roles.yml", "top.txt", "config/a/b/deep.json", "config/x/y/z/settings.yaml", "config/users.ini", "extras/notes.txt",
    # the same file name in several directories of one config base (e.g. the log4j2.properties of x-pack in Elasticsearch 6)
    "config/x-pack/log4j2.properties", "config/a/b/elasticsearch.yml", "notes.txt", "config/a/notes.txt",
]
BIN_FILES = [
    "config/certs/node.p12", "config/keystore.jks", "lib/extra.jar", "bin/run.sh", "plugins/readme", "config/a/b/logo.png",
    "config/scripts/x/y/setup.conf", "config/certs/node.p12",
]
BASE_NAMES = ["vanilla", "b1", "x_pack", "ea-base"]
CAR_NAMES = ["defaults", "4gheap", "ea", "x-pack-security", "m3"]


def gen_value(rng, tag, key):
    """-> (raw, value)"""
    r = rng.random()
    if key == "runtime.jdk":
        v = rng.choice(["17", "21,17", "11", "21"])
        return v, v
    if key == "runtime.jdk.bundled":
        v = rng.choice(["true", "True", "yes"])
        return v, v
    if key in PROTECTED:
        v = f"HIJACK-{tag}"
        return v, v
    if r < 0.62:
        v = f"{tag}-{rng.randint(0, 99)}"
        return v, v
    special = rng.choice(
        [
            ("", ""), ("0", "0"), ("false", "false"), (f"a$$b{tag}", f"a$b{tag}"), (f"50%{tag}", f"50%{tag}"), (f"x=y:{tag}", f"x=y:{tag}"),
            (f"é✓{tag}", f"é✓{tag}"), (f"has # hash ; {tag}", f"has # hash ; {tag}"), ("{{k1}}" + tag, "{{k1}}" + tag),
            (f"#lead{tag}", f"#lead{tag}"), (f"-Xmx{rng.randint(1, 64)}g", None), (f"[\"{tag}\", 2]", f"[\"{tag}\", 2]"),
        ]
    )
    return special[0], (special[0] if special[1] is None else special[1])


def gen_vars(rng, tag, nmax, meta_description=None, section_prefix=False, hot=()):
    """A [variables] section: list of [key, raw, value]. `hot`: the keys this case makes every level fight over."""
    n = rng.choice([0, 1, 2, 3, nmax])
    pool = IDENT_KEYS + DOTTED_KEYS
    keys = []
    for _ in range(n):
        if hot and rng.random() < 0.6:
            k = rng.choice(hot)
        else:
            k = rng.choice(PROTECTED) if rng.random() < 0.22 else rng.choice(pool)
        if k not in keys:
            keys.append(k)
    out = []
    for k in keys:
        raw, value = gen_value(rng, tag, k)
        out.append([k, raw, value])
    # ${...} interpolation: refer to an earlier, plain variable of the same file (or to the description)
    feats = set()
    referenced = set()
    for i, (k, raw, value) in enumerate(out):
        if k in PROTECTED or k in referenced or rng.random() > 0.18:
            continue
        plain = [o for j, o in enumerate(out) if j != i and "$" not in o[1]]
        if plain and rng.random() < 0.8:
            o = rng.choice(plain)
            referenced.add(o[0])
            ref = "${variables:%s}" % o[0] if (section_prefix or rng.random() < 0.4) else "${%s}" % o[0]
            out[i] = [k, f"pre-{ref}-post", f"pre-{o[2]}-post"]
            feats.add("interpolation")
        elif meta_description is not None:
            out[i] = [k, "d=${meta:description}", f"d={meta_description}"]
            feats.add("interpolation")
    return out, feats


def gen_text(rng, hot=()):
    keys = IDENT_KEYS + PROTECTED + ["never_defined"] + [k for k in hot if "." not in k] * 4
    nl = "\r\n" if rng.random() < 0.08 else "\n"
    lines = []
    for _ in range(rng.randint(0, 5) if rng.random() < 0.9 else 0):
        v = rng.choice(PROTECTED) if rng.random() < 0.35 else rng.choice(keys)
        lines.append(
            rng.choice(
                [
                    "%s: {{ %s }}" % (v, v), "%s: {{ %s }}" % (v, v), "{{%s}}" % v, "-Xms{{%s}}" % v,
                    "{%% if %s is defined %%}has %s={{%s}}{%% else %%}no %s{%% endif %%}" % (v, v, v, v),
                    "%s: {{ %s | default('dflt') }}" % (v, v),
                    "{%% for i in range(2) %%}{{i}}/{{%s}};{%% endfor %%}" % v,
                    "# plain comment ü", "{# jinja comment #}literal {{ '{{' }} braces", "",
                    "{%% if %s %%}truthy{%% endif %%}" % v,
                ]
            )
        )
    text = nl.join(lines)
    text += rng.choice(["", nl, nl, nl + nl])
    return text


def gen_bin(rng):
    kind = rng.random()
    if kind < 0.4:
        return bytes(rng.randrange(256) for _ in range(rng.randint(0, 24)))
    if kind < 0.7:
        return b"\xff\xfe{{heap_size}}\x00" + bytes(rng.randrange(256) for _ in range(4))
    # looks like text and like a template, but the extension says binary: must be copied as is
    return ("#!/bin/sh\necho {{ heap_size }} {{http_port}}" + rng.choice(["", "\n", "\r\n"])).encode()


def gen_case(rng, tier="quick"):
    feats = set()
    nbases = rng.choice([1, 2, 2, 3, 3, 4])
    base_names = rng.sample(BASE_NAMES, nbases)
    hot = rng.sample(IDENT_KEYS + DOTTED_KEYS, 3) + rng.sample(PROTECTED, 1)
    hot_text, hot_bin = rng.sample(TEXT_FILES, 2), rng.sample(BIN_FILES, 1)
    bases = {}
    for b in base_names:
        tag = "B(%s)" % b
        if rng.random() < 0.85:
            bvars, f = gen_vars(rng, tag, 5, section_prefix=rng.random() < 0.5, hot=hot)
            feats |= f
        else:
            bvars = None
        if rng.random() < 0.92:
            templates = {}
            nfiles = rng.randint(6, 12) if (tier == "thorough" and rng.random() < 0.1) else rng.choice([0, 1, 2, 3, 4, 5])
            for _ in range(nfiles):
                if rng.random() < 0.68:
                    templates[rng.choice(hot_text if rng.random() < 0.5 else TEXT_FILES)] = {"t": gen_text(rng, hot)}
                else:
                    templates[rng.choice(hot_bin if rng.random() < 0.4 else BIN_FILES)] = {"b": gen_bin(rng).hex()}
            if rng.random() < 0.2:
                # two templates with one file name in different directories of this base, each with its own content
                a, b2 = rng.choice([("config/log4j2.properties", "config/x-pack/log4j2.properties"), ("config/elasticsearch.yml", "config/a/b/elasticsearch.yml"),
                                    ("notes.txt", "config/a/notes.txt"), ("extras/notes.txt", "config/a/notes.txt")])
                templates[a] = {"t": gen_text(rng, hot)}
                templates[b2] = {"t": gen_text(rng, hot)}
                feats.add("same-file-name-in-two-dirs-of-a-base")
        else:
            templates = None
        emptydirs = ["config/empty.d"] if rng.random() < 0.1 and templates is not None else []
        bases[b] = {"vars": bvars, "templates": templates, "emptydirs": emptydirs}

    ncars = rng.choice([1, 2, 2, 3, 3, 4, 5])
    car_names = rng.sample(CAR_NAMES, ncars)
    cars = {}
    for c in car_names:
        tag = "C(%s)" % c
        meta = None
        if rng.random() < 0.85:
            meta = {"description": rng.choice([None, "desc of %s" % c]), "type": rng.choice([None, "car", "mixin"])}
        nb = rng.choice([0, 1, 1, 2, 2, 3])
        cb = [rng.choice(base_names) for _ in range(nb)]  # duplicates inside one car are possible on purpose
        if nb == 0 and rng.random() < 0.5:
            cb = None  # no [config] section at all
        if rng.random() < 0.9:
            cvars, f = gen_vars(rng, tag, 5, meta_description=(meta or {}).get("description"), hot=hot)
            feats |= f
        else:
            cvars = None
        cars[c] = {"meta": meta, "bases": cb, "vars": cvars}
    k = rng.randint(1, ncars)
    names = rng.sample(car_names, k)
    if rng.random() < 0.04:
        names.append(rng.choice(names))  # the same car named twice
    if not any(cars[n]["bases"] for n in names):
        cars[names[rng.randrange(len(names))]]["bases"] = [rng.choice(base_names)]

    # (a list written as "base = a, b" with a blank after the comma is NOT generated: docs/car.rst only documents the comma-separated
    #  form and the property does not promise that blanks are stripped - see DESIGN.md, decisions against reporting)

    # --car-params
    params = None
    r = rng.random()
    if r < 0.12:
        params = {}
    elif r < 0.8:
        params = {}
        for _ in range(rng.randint(1, 4)):
            key = rng.choice(hot) if rng.random() < 0.5 else (rng.choice(PROTECTED) if rng.random() < 0.2 else rng.choice(IDENT_KEYS + DOTTED_KEYS))
            if key in PROTECTED:
                params[key] = rng.choice(["HIJACK-P", 1, "HIJACK-P"])
            else:
                params[key] = rng.choice(["P-%d" % rng.randint(0, 99), "P-%d" % rng.randint(0, 99), "", 0, 4, 1.5, True, False, None, ["P", 1]])

    # the two variables the provisioner insists on: make sure the composition defines them somewhere (any level)
    def define(key):
        nonlocal params
        used_bases = [b.strip() for n in names for b in (cars[n]["bases"] or [])]
        level = rng.choice(["base", "car", "params"])
        raw, value = gen_value(rng, "req", key)
        if level == "params":
            params = dict(params or {})
            params[key] = value
        elif level == "car":
            c = cars[rng.choice(names)]
            c["vars"] = [v for v in (c["vars"] or []) if v[0] != key] + [[key, raw, value]]
        else:
            b = bases[rng.choice(used_bases)]
            b["vars"] = [v for v in (b["vars"] or []) if v[0] != key] + [[key, raw, value]]

    for key in ("runtime.jdk", "runtime.jdk.bundled"):
        define(key)
        if rng.random() < 0.3:
            define(key)

    node_name = rng.choice(["rally-node-0", "n1", "rally-node-7"])
    version = rng.choice(["8.1.2", "7.17.0", "9.0.0-SNAPSHOT"])
    nn = rng.randint(1, 3)
    ip = rng.choice(["127.0.0.1", "10.0.0.5", "192.168.1.7"])
    node = {
        "node_name": node_name,
        "cluster_name": rng.choice(["rally-benchmark", "cl-x"]),
        "ip": ip,
        "http_port": rng.choice([9200, 39200, 19200]),
        "all_ips": [ip] + ["10.1.1.%d" % i for i in range(1, nn)],
        "all_names": [node_name] + ["other-%d" % i for i in range(1, nn)],
    }

    dist_files = {
        "config/elasticsearch.yml": b"# pre-bundled\ncluster.name: pre-bundled\n".hex(),
        "config/jvm.options": b"-Xms1g\n".hex(),
        "bin/elasticsearch": b"#!/bin/sh\nexit 0\n".hex(),
        "lib/elasticsearch.jar": bytes(rng.randrange(256) for _ in range(8)).hex(),
    }
    if rng.random() < 0.5:
        dist_files["bin/run.sh"] = b"#!/bin/sh\n# from the distribution\n".hex()
    if rng.random() < 0.5:
        dist_files["config/log4j2.properties"] = b"status = error\n".hex()
    if rng.random() < 0.5:
        dist_files["modules/m/plugin-descriptor.properties"] = b"name={{heap_size}}\n".hex()
    if rng.random() < 0.3:
        dist_files["config/jvm.options.d/.keep"] = b"".hex()
    dist = {"version": version, "files": dist_files}

    home = "@ROOT@/races/%s/install/elasticsearch-%s" % (node_name, version)
    install = "@ROOT@/races/%s/install" % node_name
    # data paths: default / inside the installation / inside the install dir / outside; specified at any level
    links = {}
    r = rng.random()
    if r < 0.4:
        feats.add("data-default")
    else:
        cands = [home + "/mydata", home + "/data", home + "/var/lib/d", install + "/sibling-data", "@ROOT@/races/%s/node-data" % node_name,
                 "@ROOT@/ext/d1", "@ROOT@/ext/d1/sub", "@ROOT@/ext/d 2", "@ROOT@/other/deep/er/d3"]
        if rng.random() < 0.025:
            links["@ROOT@/ext/link-to-data"] = "@ROOT@/mnt/real-data"
            cands = ["@ROOT@/ext/link-to-data"]
        levels = rng.sample(["params", "car", "base"], rng.choice([1, 1, 2, 3]))
        used_bases = [b.strip() for n in names for b in (cars[n]["bases"] or [])]
        for level in levels:
            if level == "params":
                params = dict(params or {})
                params["data_paths"] = rng.choice(cands) if rng.random() < 0.5 else rng.sample(cands, min(len(cands), rng.randint(1, 3)))
            elif level == "car":
                c = cars[rng.choice(names)]
                p = rng.choice(cands)
                c["vars"] = [v for v in (c["vars"] or []) if v[0] != "data_paths"] + [["data_paths", p, p]]
            else:
                b = bases[rng.choice(used_bases)]
                p = rng.choice(cands)
                b["vars"] = [v for v in (b["vars"] or []) if v[0] != "data_paths"] + [["data_paths", p, p]]

    # content that is on disk before provisioning (paths relative to the node root)
    prepop = {}
    if rng.random() < 0.6:
        for _ in range(rng.randint(1, 3)):
            rel = rng.choice(["install/notes.txt", "install/old/keep.bin", "install/.hidden", "logs/server/previous.log", "heapdump/old.hprof",
                              "install/config/elasticsearch.yml", "unrelated/x/y.yml"])
            prepop[rel] = bytes(rng.randrange(256) for _ in range(rng.randint(0, 6))).hex()
    if rng.random() < 0.02:
        # hostile: unrelated content whose name happens to start with "elasticsearch"
        kind = rng.choice(["file", "dir", "dir2", "old-installation"])
        if kind == "file":
            prepop["install/elasticsearch.log"] = b"old".hex()
        elif kind == "dir":
            prepop["install/elasticsearch-0.9-old/keep.txt"] = b"old".hex()
        elif kind == "dir2":
            prepop["install/elasticsearch_backup/x.yml"] = b"old".hex()
        else:
            # what an earlier race with the same race id and --preserve-install leaves behind
            prepop["install/elasticsearch-6.8.0/config/elasticsearch.yml"] = b"cluster.name: earlier-race\n".hex()
            prepop["install/elasticsearch-6.8.0/lib/elasticsearch.jar"] = b"old-jar".hex()
            prepop["install/elasticsearch-6.8.0/bin/elasticsearch"] = b"#!/bin/sh\n".hex()
    spec = {
        "bases": bases, "cars": cars, "names": names, "params": params, "node": node, "dist": dist, "prepop": prepop, "links": links,
        "preserve_first": rng.random() < 0.7, "via_node_config_file": rng.random() < 0.4,
    }
    return spec, feats


# ------------------------------------------------------------------------ on disk
def sub(v, root):
    if isinstance(v, str):
        return v.replace("@ROOT@", root)
    if isinstance(v, list):
        return [sub(x, root) for x in v]
    return v


def _write(path, data):
    os.makedirs(os.path.dirname(path), exist_ok=True)
    with open(path, "wb") as f:
        f.write(data)


def _ini(sections, style):
    """sections: list of (name, [(key, raw)]); style: small int choosing delimiter / comment decoration."""
    delim = ["=", " = ", ": ", ":"][style % 4]
    out = []
    if style % 3 == 0:
        out.append("# generated car definition")
    for name, items in sections:
        out.append("[%s]" % name)
        for k, raw in items:
            out.append(("%s%s%s" % (k, delim, raw)).rstrip() if raw != "" else "%s%s" % (k, delim.rstrip() or "="))
        if style % 2:
            out.append("")
        if style % 5 == 0:
            out.append("; a comment line")
    return ("\n".join(out) + "\n").encode("utf-8")


def make_archive(path, version, files):
    os.makedirs(os.path.dirname(path), exist_ok=True)
    top = "elasticsearch-%s" % version
    with tarfile.open(path, "w:gz") as t:
        d = tarfile.TarInfo(top)
        d.type = tarfile.DIRTYPE
        d.mode = 0o755
        t.addfile(d)
        seen = set()
        for rel in sorted(files):
            parts = rel.split("/")[:-1]
            for i in range(1, len(parts) + 1):
                dn = top + "/" + "/".join(parts[:i])
                if dn not in seen:
                    seen.add(dn)
                    di = tarfile.TarInfo(dn)
                    di.type = tarfile.DIRTYPE
                    di.mode = 0o755
                    t.addfile(di)
            data = bytes.fromhex(files[rel])
            ti = tarfile.TarInfo(top + "/" + rel)
            ti.size = len(data)
            ti.mode = 0o755 if rel.startswith("bin/") else 0o644
            t.addfile(ti, io.BytesIO(data))


def materialise(spec, root, style_seed=0):
    """Writes team directory, distribution archive, pre-populated content. Returns dict of paths."""
    team = os.path.join(root, "team")
    v1 = os.path.join(team, "cars", "v1")
    os.makedirs(v1)
    st = style_seed
    for b, bs in spec["bases"].items():
        os.makedirs(os.path.join(v1, b), exist_ok=True)
        if bs["vars"] is not None:
            st += 1
            secs = [("variables", [(k, sub(raw, root)) for k, raw, _ in bs["vars"]])] if (bs["vars"] or st % 2) else [("other", [("x", "1")])]
            _write(os.path.join(v1, b, "config.ini"), _ini(secs, st))
        if bs["templates"] is not None:
            os.makedirs(os.path.join(v1, b, "templates"), exist_ok=True)
            for rel, c in bs["templates"].items():
                data = c["t"].encode("utf-8") if "t" in c else bytes.fromhex(c["b"])
                _write(os.path.join(v1, b, "templates", rel), data)
            for rel in bs.get("emptydirs", []):
                os.makedirs(os.path.join(v1, b, "templates", rel), exist_ok=True)
    for c, cs in spec["cars"].items():
        st += 1
        secs = []
        if cs["meta"] is not None:
            secs.append(("meta", [(k, v) for k, v in cs["meta"].items() if v is not None]))
        if cs["bases"] is not None:
            secs.append(("config", [("base", ",".join(cs["bases"]))]))
        if cs["vars"] is not None:
            secs.append(("variables", [(k, sub(raw, root)) for k, raw, _ in cs["vars"]]))
        if st % 7 == 3:
            secs.reverse()
        _write(os.path.join(v1, c + ".ini"), _ini(secs, st))
    archive = os.path.join(root, "dist", "elasticsearch-%s.tar.gz" % spec["dist"]["version"])
    make_archive(archive, spec["dist"]["version"], spec["dist"]["files"])
    races = os.path.join(root, "races")
    node_root = os.path.join(races, spec["node"]["node_name"])
    os.makedirs(node_root)
    for rel, hx in spec["prepop"].items():
        _write(os.path.join(node_root, rel), bytes.fromhex(hx))
    for link, target in spec.get("links", {}).items():
        os.makedirs(sub(target, root), exist_ok=True)
        os.makedirs(os.path.dirname(sub(link, root)), exist_ok=True)
        os.symlink(sub(target, root), sub(link, root))
    # something unrelated next to everything else
    _write(os.path.join(root, "ext", "bystander.txt"), b"bystander")
    _write(os.path.join(races, "bystander.txt"), b"bystander")
    return {"team": team, "v1": v1, "archive": archive, "races": races, "node_root": node_root}


def snapshot(root):
    """{relative path: bytes} of all files below root (symlinks to directories are not followed; recorded as entries)."""
    out = {}
    for r, dirs, files in os.walk(root):
        for d in dirs:
            p = os.path.join(r, d)
            if os.path.islink(p):
                out[os.path.relpath(p, root) + "@"] = os.readlink(p).encode()
        for f in files:
            p = os.path.join(r, f)
            rel = os.path.relpath(p, root)
            if os.path.islink(p):
                out[rel + "@"] = os.readlink(p).encode()
            else:
                with open(p, "rb") as fh:
                    out[rel] = fh.read()
    return out


def dirs_of(root):
    out = set()
    for r, dirs, _ in os.walk(root):
        for d in dirs:
            out.add(os.path.relpath(os.path.join(r, d), root))
    return out
