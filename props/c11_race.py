"""C11 end-to-end class: a filtered track runs through a complete simulated race.

`--include-tasks` / `--exclude-tasks` are given on rally's real command line (engines.race), so argument parsing, config, the
loader's TaskFilterTrackProcessor in every actor, allocator, driver, workers and progress reporting all run for real. The trace is
checked with C01's checker (runnable: every remaining step is executed and reported, the race completes) and against the reference
filter (exactly the selected tasks issued requests).
"""
import time as _t

from engines import race
from props import c01, c04_gen

TAGS = ["setup", "search", "heavy"]
TYPES = ["verif-op", "verif-op-b"]
_registered = False


def ensure_types():
    global _registered
    if not _registered:
        from esrally.driver import runner

        runner.register_runner("verif-op-b", c04_gen.verif_runner, async_runner=True)
        _registered = True


def gen_case(rng):
    case = c01.gen_case(rng)
    case["elements"] = case["elements"][:4]
    for el in case["elements"]:
        el.pop("completed_by", None)  # a filtered-out completed-by task is a different question; keep the element semantics simple
        for t in el["tasks"]:
            if "time_period" in t:
                t["time_period"] = min(t["time_period"], 5)
            if "iterations" in t:
                t["iterations"] = min(t["iterations"], 3)
            t["tags"] = rng.sample(TAGS, rng.randint(0, 2))
            t["op_type"] = rng.choice(TYPES)
    names = [t["name"] for el in case["elements"] for t in el["tasks"]]
    mode = rng.choice(["include", "exclude"])
    filters = []
    for _ in range(rng.randint(1, 3)):
        k = rng.random()
        if k < 0.5:
            filters.append(rng.choice(names))
        elif k < 0.75:
            filters.append("tag:" + rng.choice(TAGS))
        else:
            filters.append("type:" + rng.choice(TYPES))
    # aim at whole parallel elements now and then
    par = [el for el in case["elements"] if el.get("parallel")]
    if par and rng.random() < 0.4:
        filters = [t["name"] for t in rng.choice(par)["tasks"]]
    case["filter"] = {"mode": mode, "filters": filters}
    return case


def matches(t, f):
    if f.startswith("tag:"):
        return f[4:] in t.get("tags", [])
    if f.startswith("type:"):
        return f[5:] == t.get("op_type", "verif-op")
    return f == t["name"]


def expected_kept(case):
    mode, filters = case["filter"]["mode"], case["filter"]["filters"]
    kept = []
    for el in case["elements"]:
        for t in el["tasks"]:
            m = any(matches(t, f) for f in filters)
            if (mode == "include" and m) or (mode == "exclude" and not m):
                kept.append(t["name"])
    return kept


def race_case(ctx, rng, explicit=None, shrink=True):
    ensure_types()
    case = explicit or gen_case(rng)
    kept = expected_kept(case)
    if not kept:
        ctx.feature("e2e:filter-removes-everything-skipped")
        return
    arg = f"--{case['filter']['mode']}-tasks={','.join(case['filter']['filters'])}"
    run_case = dict(case, wall_deadline=_t.monotonic() + max(15.0, ctx.time_left() + 10.0))
    tr = race.run_race(run_case, ctx.scratch, extra_args=[arg], instrument=c01.instrument)
    c01.finish_trace(tr)
    feats = {"e2e", "e2e:" + case["filter"]["mode"]}
    if tr.budget:
        ctx.feature("budget-exceeded")
        ctx.case(["e2e", case], False, ())
        return
    problems = []
    c01.check_trace(ctx, case, tr, problems, feats)
    ctx.clause("e2e:executed-exactly-kept")
    ran = sorted({r["task"] for r in tr.rec.runs})
    if not problems and ran != sorted(kept):
        problems.append(("e2e:executed-exactly-kept", f"{arg}: tasks that issued requests {ran}, selected by the filter {sorted(kept)}", None))
    el_names = [[t["name"] for t in el["tasks"]] for el in case["elements"]]
    if any(not set(e) & set(kept) for e in el_names if len(e) > 1):
        feats.add("e2e:whole-parallel-removed")
    ctx.case(["e2e", case], True, feats)
    ctx.sample({"class": "e2e", "schedule": el_names, "filter": arg, "observed": {"executed": ran, "exit_status": tr.exit_status, "steps": len([m for m in tr.to_racecontrol if m[1] == "TaskFinished"]) + 1}}, tag="e2e-" + case["filter"]["mode"])
    for clause, msg, detail in problems:
        name = clause if clause.startswith("e2e:") else "e2e:" + clause
        ctx.violation(name, {"workload": "e2e", "case": case, "detail": detail}, f"{arg}: {msg}")
