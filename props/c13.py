"""C13 - cars compose in order with documented precedence; provisioning mirrors templates.

Monitor: a generated team directory (cars, mixins, config bases with config.ini and template trees), a list of
car names and car parameters are given to the real team.load_car; the Car it returns is compared with a reference
fold written from docs/car.rst. The same Car is then provisioned by the real provisioner.local(...).prepare(...)
from a stub elasticsearch-x.y.z.tar.gz into a (pre-populated) node directory; the installation tree is compared,
as {relative path -> bytes}, with a reference render (each template rendered on its own with the expected variable
map, concatenated in config-base order, binary files verbatim). Finally the real provisioner.cleanup is called the
way the mechanic calls it, with preserve=True and preserve=False, and the directory tree is inspected.
"""
import json
import logging
import os
import shutil
import time

import jinja2

from esrally import config
from esrally.mechanic import provisioner, team

from props import c13_gen as G

ID = "C13"
LEVEL = "exploration"
RULE = (
    "seeded generator of (team directory: 1-5 cars/mixins over 1-4 shared config bases with config.ini variables and template trees "
    "0-3 levels deep, text and binary files; --car list; --car-params; node settings; stub distribution; pre-populated node directory; "
    "data paths inside/outside the installation). A case is non-trivial when >= 2 cars or >= 2 config bases are composed and at least one "
    "variable is defined at >= 2 levels or one file is provided by >= 2 bases; distinct = hash of the whole case specification"
)
ASSUMPTIONS = [
    "ini files mean what Python's configparser with ${section:key} interpolation says (values written by the generator together with their expected parse)",
    "a rendered text snippet is Jinja's default-environment output of that file alone plus one terminating newline (Jinja drops one trailing newline of the "
    "source, Rally re-adds it), so that snippets appended by later bases start on a fresh line",
    "which files are templates is decided by extension (.yml .yaml .json .txt .ini .options .properties); every other file is 'binary' and expected verbatim, "
    "the later base winning when two bases provide it",
    "when a config base is named by several cars the statement does not say whether its config.ini variables are applied once (first occurrence) or again "
    "with the later car; either fold is accepted, consistently for the whole case",
    "Rally's own values: cluster/node name, node ip (= network host), http port, transport port = http port + 100, JSON lists of all ips/names, "
    "minimum master nodes = number of ips, install root = NodeConfiguration.binary_path, log/heap-dump path = the directories the installer created below the node root",
    "'the installation' that cleanup removes is NodeConfiguration.binary_path, the data paths are NodeConfiguration.data_paths - what the mechanic passes; "
    "a data path that is a symlink to a directory counts as removed when nothing is left behind it",
    "data_paths is car-controlled by design (not a protected variable); text files of the distribution outside config/ are not overwritten by generated templates",
    "the comma separated `base` list of a car names its config bases; blanks around a name are not part of the name (2% of the cases write `base=a, b`)",
    "hostile but legal surroundings are generated at a low rate: a data path that is a symbolic link to a directory (2%), an install directory that already "
    "holds an entry whose name starts with 'elasticsearch' (2%: a log file, a backup directory, the installation of an earlier race)",
    "plugins, install hooks (config.py) and the Docker provisioner are not exercised",
]
REQUIRED_CLAUSES = [
    "compose-no-error", "car-names", "config-paths-order-dedup", "var-keys", "var-precedence", "prepare-no-error", "install-root", "node-config",
    "data-paths-honoured", "tree-text", "tree-append", "tree-binary", "protected-vars", "rally-paths-exist", "dist-untouched", "no-stray-files",
    "prepop-untouched", "preserve-keeps-everything", "cleanup-install-gone", "cleanup-data-gone", "cleanup-no-collateral",
]
REQUIRED_FEATURES = {
    "shared-base": 10, "param-over-car": 10, "param-over-base": 10, "latercar-over-earliercar": 10, "car-over-base": 10, "earliercar-over-laterbase": 5,
    "laterbase-over-earlierbase": 5, "file-from-2-bases": 10, "binary-file": 10, "binary-from-2-bases": 3, "protected-shadowed-in-template": 10,
    "tree-depth-3": 5, "data-default": 10, "data-inside-installation": 5, "data-outside": 5, "prepopulated": 10, "interpolation": 5,
    "prebundled-config-replaced": 10, "non-string-param": 5, "same-file-name-in-two-dirs-of-a-base": 10,
}
BUDGET = {
    "quick": {"cases": 4000, "seconds": 30},
    "thorough": {"cases": 60000, "seconds": 540},
}


logging.getLogger().addHandler(logging.NullHandler())  # Rally logs every skipped deletion with a traceback; keep the shard logs readable


class _Null:
    def clause(self, *a, **k):
        pass


def same(a, b):
    return type(a) is type(b) and a == b


# ------------------------------------------------------------------------ reference: composition
def ref_compose(spec, root):
    """Ordered fold written from docs/car.rst and the property statement.

    -> (order of config bases, [accepted variable maps], provenance {key: [(level, value)]}, features)
    """
    cars, bases, names = spec["cars"], spec["bases"], spec["names"]
    params = {k: G.sub(v, root) for k, v in (spec["params"] or {}).items()}

    def bvars(b):
        return {k: G.sub(v, root) for k, _, v in (bases[b]["vars"] or [])}

    def cvars(n):
        return {k: G.sub(v, root) for k, _, v in (cars[n]["vars"] or [])}

    def cbases(n):
        # the base list is comma separated; blanks around a name carry no meaning (as everywhere in an ini file)
        return [b.strip() for b in (cars[n]["bases"] or []) if b.strip()]

    order, introduced_by = [], {}
    for i, n in enumerate(names):
        for b in cbases(n):
            if b and b not in order:
                order.append(b)
                introduced_by[b] = i
    # config.ini variables: (A) applied car by car, again when a later car names the base again; (B) once per base at its first occurrence
    fold_a, fold_b = {}, {}
    for n in names:
        for b in cbases(n):
            fold_a.update(bvars(b))
    for b in order:
        fold_b.update(bvars(b))
    car_fold = {}
    for n in names:
        car_fold.update(cvars(n))
    variants = []
    for base_fold in (fold_a, fold_b):
        m = dict(base_fold)
        m.update(car_fold)  # car variables override those of config bases
        m.update(params)  # car parameters override both
        if not any(m.keys() == o.keys() and all(same(m[k], o[k]) for k in m) for o in variants):
            variants.append(m)
    prov = {}
    for j, b in enumerate(order):
        for k, v in bvars(b).items():
            prov.setdefault(k, []).append(("config base %s (#%d)" % (b, j), v))
    for i, n in enumerate(names):
        for k, v in cvars(n).items():
            prov.setdefault(k, []).append(("car %s (#%d)" % (n, i), v))
    for k, v in params.items():
        prov.setdefault(k, []).append(("car-params", v))

    feats = set()
    occurrences = [b for n in names for b in cbases(n)]
    if len(occurrences) > len(set(occurrences)):
        feats.add("shared-base")
    if len(variants) > 1:
        feats.add("base-fold-ambiguous")
    car_defs = {}  # key -> [(index in names, value)]
    for i, n in enumerate(names):
        for k, v in cvars(n).items():
            car_defs.setdefault(k, []).append((i, v))
    base_defs = {}
    for b in order:
        for k, v in bvars(b).items():
            base_defs.setdefault(k, []).append((introduced_by[b], b, v))
    for k, v in params.items():
        if any(not same(v, cv) for _, cv in car_defs.get(k, [])):
            feats.add("param-over-car")
        if any(not same(v, bv) for _, _, bv in base_defs.get(k, [])):
            feats.add("param-over-base")
        if not isinstance(v, str):
            feats.add("non-string-param")
    for k, defs in car_defs.items():
        if k in params:
            continue
        if len({i for i, _ in defs}) > 1 and len({repr(v) for _, v in defs}) > 1:
            feats.add("latercar-over-earliercar")
        last_i, last_v = defs[-1]
        for bi, _, bv in base_defs.get(k, []):
            if not same(bv, last_v):
                feats.add("car-over-base")
                if bi > last_i:
                    feats.add("earliercar-over-laterbase")
    for k, defs in base_defs.items():
        if k in params or k in car_defs:
            continue
        if len(defs) > 1 and len({repr(v) for _, _, v in defs}) > 1:
            feats.add("laterbase-over-earlierbase")
    nlevels = {k: len(v) for k, v in prov.items()}
    if any(c >= 2 for c in nlevels.values()):
        feats.add("var-at-2-levels")
    return order, variants, prov, feats


def check_composition(ctx, spec, root, paths, problems):
    order, variants, prov, feats = ref_compose(spec, root)
    params = None if spec["params"] is None else {k: G.sub(v, root) for k, v in spec["params"].items()}
    ctx.clause("compose-no-error")
    try:
        car = team.load_car(paths["team"], list(spec["names"]), params)
    except BaseException as e:
        problems.append(("compose-no-error", "team.load_car raised %s: %s" % (type(e).__name__, str(e)[:200]), None))
        return None, order, variants, feats
    ctx.clause("car-names")
    if list(car.names) != list(spec["names"]):
        problems.append(("car-names", "Car.names %r != requested %r" % (list(car.names), spec["names"]), None))
    ctx.clause("config-paths-order-dedup")
    expected_paths = [os.path.join(paths["v1"], b, "templates") for b in order]
    got_paths = [os.path.normpath(p) for p in car.config_paths]
    if got_paths != expected_paths:
        short = lambda ps: [os.path.relpath(p, paths["v1"]) for p in ps]
        problems.append(
            ("config-paths-order-dedup", "config paths %r, expected first-occurrence order without duplicates %r" % (short(got_paths), short(expected_paths)), None)
        )
    got = dict(car.variables)
    ctx.clause("var-keys")
    if set(got) != set(variants[0]):
        problems.append(
            ("var-keys", "composed car defines %r, expected %r" % (sorted(set(got) - set(variants[0])), sorted(set(variants[0]) - set(got))) + " (extra, missing)", None)
        )
    for k in sorted(set(got) & set(variants[0])):
        ctx.clause("var-precedence")
        if not any(same(got[k], m[k]) for m in variants):
            problems.append(
                (
                    "var-precedence",
                    "variable %r is %r but the precedence chain (car-params > later car > earlier car > config bases) gives %r; defined by: %s"
                    % (k, got[k], variants[0][k], "; ".join("%s=%r" % lv for lv in prov.get(k, []))),
                    {"key": k, "got": got[k], "expected": [m[k] for m in variants]},
                )
            )
    if len(variants) > 1 and not any(set(got) == set(m) and all(same(got[k], m[k]) for k in m) for m in variants):
        if not any(p[0] in ("var-precedence", "var-keys") for p in problems):
            problems.append(("var-precedence", "config-base variables follow neither of the two accepted folds consistently", None))
    return car, order, variants, feats


# ------------------------------------------------------------------------ reference: provisioning
def ref_tree(spec, order, varmap, owned):
    """{relpath: bytes}, {relpath: info}. Each template rendered on its own; snippets concatenated in base order; binary files verbatim."""
    variables = dict(varmap)
    variables.update(owned)  # Rally's own node variables cannot be overridden
    env = jinja2.Environment()
    exp, info = {}, {}
    for b in order:
        for rel, c in (spec["bases"][b]["templates"] or {}).items():
            i = info.setdefault(rel, {"text": "t" in c, "bases": []})
            i["bases"].append(b)
            if "t" in c:
                seg = (env.from_string(c["t"]).render(variables) + "\n").encode("utf-8")
                exp[rel] = exp.get(rel, b"") + seg
                i.setdefault("segments", []).append(seg)
            else:
                exp[rel] = bytes.fromhex(c["b"])
    return exp, info


_ROOT = ["\0"]


def show(b, n=160):
    if b is None:
        return None
    try:
        s = b.decode("utf-8").replace(_ROOT[0], "@ROOT@")
    except UnicodeDecodeError:
        s = b.hex()
    return s if len(s) <= n else s[:n] + "...(%d bytes)" % len(b)


def under(path, parent):
    path, parent = os.path.abspath(path), os.path.abspath(parent)
    return path == parent or path.startswith(parent + os.sep)


def check_provisioning(ctx, spec, root, paths, car, order, variants, problems, feats):
    node = spec["node"]
    version = spec["dist"]["version"]
    cfg = config.Config()
    cfg.add(config.Scope.application, "mechanic", "distribution.version", version)
    cfg.add(config.Scope.application, "mechanic", "cluster.name", node["cluster_name"])
    cfg.add(config.Scope.application, "mechanic", "runtime.jdk", "bundled")  # the only way to stay clear of a JVM lookup
    before = G.snapshot(paths["node_root"])
    pre_existing_homes = sorted({rel.split("/")[1] for rel in spec["prepop"] if rel.startswith("install/elasticsearch")})
    ctx.clause("prepare-no-error")
    try:
        p = provisioner.local(cfg, car, [], node["ip"], node["http_port"], list(node["all_ips"]), list(node["all_names"]), paths["races"], node["node_name"])
        nc = p.prepare({"elasticsearch": paths["archive"]})
    except BaseException as e:
        problems.append(
            ("prepare-no-error", "provisioning raised %s: %s" % (type(e).__name__, str(e).replace(root, "@ROOT@")[:240]), {"preexisting_elasticsearch_entries": pre_existing_homes})
        )
        return None
    installer = p.es_installer
    home = nc.binary_path
    dist_files = {rel: bytes.fromhex(hx) for rel, hx in spec["dist"]["files"].items()}
    after = G.snapshot(paths["node_root"])

    ctx.clause("install-root")
    marker_ok = isinstance(home, str) and under(home, paths["node_root"]) and os.path.isdir(home) and os.path.isfile(os.path.join(home, "lib/elasticsearch.jar"))
    if not marker_ok or os.path.basename(home) in pre_existing_homes:
        problems.append(
            (
                "install-root",
                "binary path %r is not the directory the distribution was extracted to" % str(home).replace(root, "@ROOT@"),
                {"preexisting_elasticsearch_entries": pre_existing_homes},
            )
        )
        return None

    ctx.clause("node-config")
    jdks = [m.get("runtime.jdk") for m in variants]
    if nc.node_name != node["node_name"] or nc.ip != node["ip"] or not under(home, nc.node_root_path) or nc.car_runtime_jdks not in jdks:
        problems.append(("node-config", "node configuration %r does not describe the provisioned node (runtime.jdk expected %r)" % (nc.as_dict(), jdks), None))

    ctx.clause("data-paths-honoured")
    accepted = []
    for m in variants:
        if "data_paths" in m:
            v = m["data_paths"]
            accepted.append([v] if isinstance(v, str) else list(v))
        else:
            accepted.append(None)
    dp = nc.data_paths
    if not isinstance(dp, list) or not dp or not all(isinstance(x, str) for x in dp):
        problems.append(("data-paths-honoured", "data paths %r are not a non-empty list of paths" % (dp,), None))
    elif None in accepted:
        if not all(under(x, paths["node_root"]) for x in dp):  # determined by Rally: must at least live below the node's root
            problems.append(("data-paths-honoured", "default data paths %r are outside the node root" % (dp,), None))
    elif dp not in accepted:
        problems.append(
            ("data-paths-honoured", "data paths %r, the composed car asks for %r" % ([x.replace(root, "@ROOT@") for x in dp], [[x.replace(root, "@ROOT@") for x in a] for a in accepted]), None)
        )
    if isinstance(dp, list) and all(isinstance(x, str) for x in dp):
        if None not in accepted:
            if any(under(x, home) for x in dp):
                feats.add("data-inside-installation")
            if any(not under(x, paths["node_root"]) for x in dp):
                feats.add("data-outside")
            if len(dp) > 1:
                feats.add("data-multiple")

    ctx.clause("rally-paths-exist")
    log_path, heap_path = getattr(installer, "node_log_dir", None), getattr(installer, "heap_dump_dir", None)
    for name, pth in (("log_path", log_path), ("heap_dump_path", heap_path)):
        if not (isinstance(pth, str) and os.path.isdir(pth) and under(pth, paths["node_root"])):
            problems.append(("rally-paths-exist", "Rally's %s %r is not an existing directory below the node root" % (name, pth), None))
            return nc
    owned = {
        "cluster_name": node["cluster_name"], "node_name": node["node_name"], "node_ip": node["ip"], "network_host": node["ip"],
        "http_port": str(node["http_port"]), "transport_port": str(node["http_port"] + 100),
        "all_node_ips": json.dumps(node["all_ips"], separators=(",", ":")), "all_node_names": json.dumps(node["all_names"], separators=(",", ":")),
        "minimum_master_nodes": len(node["all_ips"]), "install_root_path": home, "log_path": log_path, "heap_dump_path": heap_path,
    }

    actual = {os.path.relpath(os.path.join(paths["node_root"], rel), home): data for rel, data in after.items() if under(os.path.join(paths["node_root"], rel), home)}
    trees = [ref_tree(spec, order, m, owned) for m in variants]
    # with two accepted folds the whole tree has to agree with one of them
    best = 0
    if len(trees) > 1:
        score = [sum(1 for rel, data in t[0].items() if actual.get(rel) == data) for t in trees]
        best = score.index(max(score))
    exp, info = trees[best]
    hijacked, _ = ref_tree(spec, order, variants[best], {k: v for k, v in owned.items() if k not in variants[best]})
    shadowed = [k for k in G.PROTECTED if k in variants[best]]
    for rel in sorted(exp):
        i = info[rel]
        got = actual.get(rel)
        depth = rel.count("/")
        if depth >= 3:
            feats.add("tree-depth-3")
        if i["text"]:
            clause = "tree-append" if len(i["bases"]) > 1 else "tree-text"
            if len(i["bases"]) > 1:
                feats.add("file-from-2-bases")
            if rel in dist_files and rel.startswith("config/"):
                feats.add("prebundled-config-replaced")
            refs = [k for k in shadowed if any(k in spec["bases"][b]["templates"][rel]["t"] for b in i["bases"])]
            if refs and hijacked[rel] != exp[rel]:
                feats.add("protected-shadowed-in-template")
                ctx.clause("protected-vars")
                if got is not None and got != exp[rel] and got == hijacked[rel]:
                    problems.append(
                        (
                            "protected-vars",
                            "%s was rendered with the car's value for Rally's own variable(s) %s: %r, expected %r" % (rel, refs, show(got), show(exp[rel])),
                            {"file": rel, "variables": refs},
                        )
                    )
                    continue
        else:
            clause = "tree-binary"
            feats.add("binary-file")
            if len(i["bases"]) > 1:
                feats.add("binary-from-2-bases")
        ctx.clause(clause)
        if got != exp[rel]:
            why = ""
            if got is None:
                why = "missing from the installation"
            elif i["text"] and len(i["bases"]) > 1 and got == i["segments"][-1]:
                why = "only the last base's snippet is there (overwritten instead of appended)"
            elif i["text"] and got == b"".join(i["segments"]) * 2:
                why = "every snippet is there twice"
            elif i["text"] and any(got == spec["bases"][b]["templates"][rel]["t"].encode("utf-8") for b in i["bases"]):
                why = "copied without rendering"
            problems.append(
                (
                    clause,
                    "%s (provided by %s): %s; got %r, expected %r" % (rel, "+".join(i["bases"]), why or "content differs", show(got), show(exp[rel])),
                    {"file": rel, "bases": i["bases"]},
                )
            )
    ctx.clause("dist-untouched")
    for rel, data in dist_files.items():
        if rel.startswith("config/") or rel in exp:
            continue  # the pre-bundled configuration may go; files a template provides are the template's
        if actual.get(rel) != data:
            problems.append(("dist-untouched", "distribution file %s changed during provisioning: %r" % (rel, show(actual.get(rel))), None))
            break
    ctx.clause("no-stray-files")
    stray = sorted(rel for rel in actual if rel not in exp and rel not in dist_files)
    if stray:
        problems.append(("no-stray-files", "files in the installation that neither the distribution nor a template provides: %r" % stray[:5], None))
    if spec["prepop"]:
        feats.add("prepopulated")
        ctx.clause("prepop-untouched")
        for rel, data in before.items():
            if after.get(rel) != data:
                problems.append(("prepop-untouched", "%s was in the node directory before provisioning and is now %r" % (rel, show(after.get(rel))), None))
                break
    return nc


def check_cleanup(ctx, spec, root, paths, nc, problems):
    home, data_paths = nc.binary_path, nc.data_paths
    if spec.get("via_node_config_file"):
        # the install / stop subcommands hand the node configuration over through a file
        d = os.path.join(root, "nodecfg")
        os.makedirs(d, exist_ok=True)
        provisioner.save_node_configuration(d, nc)
        nc2 = provisioner.load_node_configuration(d)
        home, data_paths = nc2.binary_path, nc2.data_paths
    # what a node leaves behind
    for i, dpath in enumerate(data_paths):
        os.makedirs(os.path.join(dpath, "nodes", "0"), exist_ok=True)
        with open(os.path.join(dpath, "nodes", "0", "segments_%d" % i), "wb") as f:
            f.write(b"lucene")
    with open(os.path.join(home, "elasticsearch.pid.log"), "wb") as f:
        f.write(b"runtime")
    before = G.snapshot(root)
    before_dirs = G.dirs_of(root)
    if spec.get("preserve_first", True):
        ctx.clause("preserve-keeps-everything")
        try:
            provisioner.cleanup(preserve=True, install_dir=home, data_paths=data_paths)
        except BaseException as e:
            problems.append(("preserve-keeps-everything", "cleanup(preserve=True) raised %s: %s" % (type(e).__name__, e), None))
            return
        now = G.snapshot(root)
        gone = sorted(set(before) - set(now)) + sorted(d + "/" for d in before_dirs - G.dirs_of(root))
        changed = sorted(k for k in before if k in now and now[k] != before[k])
        if gone or changed:
            problems.append(("preserve-keeps-everything", "with preserve-install set cleanup removed %r / changed %r" % (gone[:4], changed[:4]), None))
            return
    try:
        provisioner.cleanup(preserve=False, install_dir=home, data_paths=data_paths)
    except BaseException as e:
        problems.append(("cleanup-install-gone", "cleanup(preserve=False) raised %s: %s" % (type(e).__name__, str(e).replace(root, "@ROOT@")), None))
        return
    ctx.clause("cleanup-install-gone")
    if os.path.lexists(home):
        problems.append(("cleanup-install-gone", "the installation %s still exists after cleanup" % home.replace(root, "@ROOT@"), None))
    left = []
    for dpath in data_paths:
        ctx.clause("cleanup-data-gone")
        if not os.path.lexists(dpath):
            continue
        if os.path.islink(dpath) and os.path.isdir(dpath) and not os.listdir(dpath):
            continue  # emptied behind a symlink
        left.append(dpath)
    if left:
        problems.append(
            (
                "cleanup-data-gone",
                "data path(s) %r still hold data after cleanup" % [x.replace(root, "@ROOT@") for x in left],
                {"remaining": [x.replace(root, "@ROOT@") for x in left], "all_remaining_are_symlinks": all(os.path.islink(x) for x in left)},
            )
        )
    ctx.clause("cleanup-no-collateral")
    now = G.snapshot(root)
    removable = [os.path.realpath(home)] + [os.path.realpath(x) for x in data_paths] + [home] + list(data_paths)
    lost = []
    for rel, data in before.items():
        ab = os.path.join(root, rel.rstrip("@"))
        if any(under(ab, r) for r in removable) or (spec.get("links") and any(under(os.path.realpath(os.path.dirname(ab)), r) for r in removable)):
            continue
        if now.get(rel) != data:
            lost.append(rel)
    if lost:
        problems.append(("cleanup-no-collateral", "cleanup removed or changed files that belong neither to the installation nor to a data path: %r" % sorted(lost)[:5], None))


# ------------------------------------------------------------------------ one case
def run_spec(ctx, spec, root):
    """Materialises the case below root, runs the real code and all monitors. -> (problems, features)"""
    if os.path.lexists(root):
        shutil.rmtree(root)
    os.makedirs(root)
    problems, feats = [], set()
    _ROOT[0] = root
    try:
        paths = G.materialise(spec, root)
        car, order, variants, f = check_composition(ctx, spec, root, paths, problems)
        feats |= f
        if car is not None:
            nc = check_provisioning(ctx, spec, root, paths, car, order, variants, problems, feats)
            if nc is not None and isinstance(nc.data_paths, list) and isinstance(nc.binary_path, str):
                check_cleanup(ctx, spec, root, paths, nc, problems)
    finally:
        shutil.rmtree(root, ignore_errors=True)
    # witnesses and messages never carry the scratch location
    problems = [(c, m.replace(root, "@ROOT@"), json.loads(json.dumps(d, default=repr).replace(root, "@ROOT@"))) for c, m, d in problems]
    return problems, feats


def _reductions(spec):
    """Smaller variants of a case, most drastic first."""
    def clone():
        return json.loads(json.dumps(spec))

    for i in range(len(spec["names"])):
        if len(spec["names"]) > 1:
            s = clone()
            del s["names"][i]
            yield s
    for c in list(spec["cars"]):
        if c not in spec["names"]:
            s = clone()
            del s["cars"][c]
            yield s
    used = {b.strip() for c in spec["cars"].values() for b in (c["bases"] or [])}
    for b in list(spec["bases"]):
        if b not in used:
            s = clone()
            del s["bases"][b]
            yield s
    for c, cs in spec["cars"].items():
        for i in range(len(cs["bases"] or [])):
            s = clone()
            del s["cars"][c]["bases"][i]
            yield s
    for key in ("prepop", "links"):
        for k in list(spec.get(key) or {}):
            s = clone()
            del s[key][k]
            yield s
    for k in list(spec["params"] or {}):
        if not k.startswith("runtime.jdk"):
            s = clone()
            del s["params"][k]
            yield s
    for b, bs in spec["bases"].items():
        for rel in list(bs["templates"] or {}):
            s = clone()
            del s["bases"][b]["templates"][rel]
            yield s
    for kind in ("cars", "bases"):
        for n, e in spec[kind].items():
            for i in range(len(e["vars"] or [])):
                if e["vars"][i][0].startswith("runtime.jdk"):
                    continue  # the provisioner insists on these
                s = clone()
                del s[kind][n]["vars"][i]
                yield s
    for b, bs in spec["bases"].items():
        for rel, c in (bs["templates"] or {}).items():
            if "t" in c and c["t"].count("\n") > 1:
                lines = c["t"].split("\n")
                for i in range(len(lines)):
                    s = clone()
                    s["bases"][b]["templates"][rel]["t"] = "\n".join(lines[:i] + lines[i + 1:])
                    yield s
    for rel in list(spec["dist"]["files"]):
        if rel not in ("lib/elasticsearch.jar", "config/elasticsearch.yml"):
            s = clone()
            del s["dist"]["files"][rel]
            yield s


def signature(msg):
    """What kind of failure a message describes (exception type for crashes), so that shrinking does not drift to another failure."""
    return msg.split(":")[0] if " raised " in msg.split(":")[0] else ""


def shrink(spec, clause, msg, root, max_runs=120, max_seconds=4.0):
    runs = 0
    sig = signature(msg)
    t_end = time.monotonic() + max_seconds  # effort bound only; the verdict does not depend on it

    def fails(s):
        nonlocal runs
        runs += 1
        try:
            probs, _ = run_spec(_Null(), s, root)
        except BaseException:
            return False
        return any(p[0] == clause and signature(p[1]) == sig for p in probs)

    changed = True
    while changed and runs < max_runs and time.monotonic() < t_end:
        changed = False
        for s in _reductions(spec):
            if runs >= max_runs or time.monotonic() >= t_end:
                break
            if fails(s):
                spec, changed = s, True
                break
    return spec


_SHRUNK = {}


def one_case(ctx, rng, explicit=None):
    if explicit is None:
        spec, gfeats = G.gen_case(rng, ctx.tier)
    else:
        spec, gfeats = explicit, set()
    root = str(ctx.scratch / "case")
    try:
        problems, feats = run_spec(ctx, spec, root)
    except BaseException as e:  # the harness, not Rally
        ctx.mark_inconclusive("harness error %s: %s" % (type(e).__name__, e))
        raise
    feats |= gfeats
    if spec["links"]:
        feats.add("symlinked-data-path")
    if any(rel.startswith("install/elasticsearch") for rel in spec["prepop"]):
        feats.add("prepop-named-elasticsearch")
    nbases = len({b.strip() for n in spec["names"] for b in (spec["cars"][n]["bases"] or [])})
    nontrivial = (len(spec["names"]) >= 2 or nbases >= 2) and bool({"var-at-2-levels", "file-from-2-bases"} & feats)
    ctx.case(spec, nontrivial, feats)
    ctx.distinct("composition-shapes", [[len(spec["cars"][n]["bases"] or []) for n in spec["names"]], spec["params"] is not None and len(spec["params"])])
    if len(json.dumps(spec)) < 1500:
        ctx.sample({"spec": spec, "features": sorted(feats)}, tag="+".join(sorted(feats & {"shared-base", "file-from-2-bases", "data-outside", "earliercar-over-laterbase"})) or "plain")
    seen = set()
    for clause, msg, detail in problems:
        if clause in seen:
            continue
        seen.add(clause)
        # shrink the first few witnesses of each kind only (the runner keeps three per kind)
        kind = (clause, classify({"clause": clause, "witness": {"spec": spec, "detail": detail}, "msg": msg}))
        _SHRUNK[kind] = _SHRUNK.get(kind, 0) + 1
        small = shrink(spec, clause, msg, str(ctx.scratch / "shrink")) if explicit is None and len(seen) <= 2 and _SHRUNK[kind] <= 1 else spec
        if small is not spec:
            # report the message of the shrunk case
            probs2, _ = run_spec(_Null(), small, str(ctx.scratch / "shrink"))
            for c2, m2, d2 in probs2:
                if c2 == clause:
                    msg, detail = m2, d2
                    break
        ctx.violation(clause, {"spec": small, "detail": detail}, msg)
        if len(seen) >= 3:
            break
    return problems


def run_shard(ctx):
    i = 0
    while ctx.more():
        one_case(ctx, ctx.case_rng(i))
        i += 1


def classify(v):
    w = v.get("witness") or {}
    spec = w.get("spec") or {}
    detail = w.get("detail") or {}
    clause = v.get("clause")
    if clause == "cleanup-data-gone" and detail.get("all_remaining_are_symlinks") and spec.get("links"):
        # every data path that survived cleanup is a symbolic link to a directory
        return "cleanup-skips-symlinked-data-path"
    if clause in ("prepare-no-error", "install-root") and detail.get("preexisting_elasticsearch_entries"):
        # the install directory already held an entry whose name starts with "elasticsearch" before the archive was extracted
        return "es-home-glob-matches-preexisting-entry"
    return None


def replay(ctx, rec):
    one_case(ctx, None, explicit=rec["witness"]["spec"])


MANIFEST = {
    "text": "Exploration: ~6*10^3 (quick) / ~10^5 (thorough) generated team directories (1-5 cars/mixins over shared config bases, variables overlapping at "
    "every level, ${..} interpolation, car-params of all JSON types, template trees 0-3 deep with text and binary files) go through the real team.load_car and "
    "the real provisioner.local(...).prepare(...) on a stub elasticsearch-x.y.z.tar.gz in pre-populated node directories, then through the real "
    "provisioner.cleanup with preserve on and off. Car (names, config paths, every variable) is compared with a reference fold, the installation tree "
    "byte-for-byte with a reference render, the directory tree after cleanup with the statement. Holds on the cases produced, not beyond.",
    "note": "Trusts the reference fold/render (80 lines), Jinja2 itself (the reference renders each file with the same library, independently of "
    "_apply_config), configparser semantics as encoded by the generator, and the assumptions listed in the evidence file (plugins and install hooks are not exercised).",
    "technique": "runtime monitor: reference-model oracle for composition and for the rendered tree + filesystem invariants before/after cleanup, over generated team directories",
    "design_ref": "DESIGN.md section 4 C13",
}
