#!/bin/bash
# selftest/mutate.sh <ID> <patch-file|-e 'sed-expr' file> [tier]
# Runs ./check <ID> against a scratch copy of /repo with a property-breaking change applied.
# Expects the check to exit 1 (VIOLATION). /repo itself is never touched; the evidence file is restored afterwards.
#   selftest/mutate.sh C06 selftest/c06-double-count.diff
#   selftest/mutate.sh C06 -e 's/a/b/' esrally/driver/driver.py
set -u
cd "$(dirname "$(readlink -f "$0")")/.."
ID=$1; shift
MUT=$(mktemp -d /tmp/verif-mut-XXXXXX)
trap 'rm -rf "$MUT"' EXIT
rsync -a --exclude .git --exclude tests --exclude docs --exclude it --exclude benchmarks /repo/ "$MUT/"
if [ "$1" = "-e" ]; then
  sed -i -E "$2" "$MUT/$3" || exit 3
  if diff -q "/repo/$3" "$MUT/$3" >/dev/null; then echo "MUTATION DID NOT CHANGE $3"; exit 3; fi
  shift 3
else
  (cd "$MUT" && patch -p1 --quiet < "$OLDPWD/$1") || { echo "PATCH FAILED"; exit 3; }
  shift
fi
TIER=${1:-quick}
/venv/bin/python -m compileall -q "$MUT/esrally" >/dev/null || { echo "MUTANT DOES NOT COMPILE"; exit 3; }
[ -f evidence/$ID.json ] && cp evidence/$ID.json "$MUT/evidence.bak"
mkdir -p "$MUT/replaybak"; cp evidence/replay/$ID-* "$MUT/replaybak/" 2>/dev/null
PYTHONPATH="$MUT" ./check "$ID" "$TIER" > "$MUT/out.txt" 2>&1
RC=$?
grep -E "VIOLATION|INCONCLUSIVE|HELD|KNOWN" "$MUT/out.txt" | cut -c1-300 | head -4
grep -A1 "^VIOLATION" "$MUT/out.txt" | grep clause= | cut -c1-300 | head -3
rm -f evidence/replay/$ID-*; cp "$MUT"/replaybak/* evidence/replay/ 2>/dev/null
[ -f "$MUT/evidence.bak" ] && cp "$MUT/evidence.bak" evidence/$ID.json
if [ "${EXPECT:-1}" = "0" ]; then
  # used to try a proposed *fix*: EXPECT=0 selftest/mutate.sh C15 selftest/proposed-fix-c15-x.diff
  if [ $RC -eq 0 ]; then echo "HELD WITH PATCH (exit 0)"; exit 0; else echo "STILL NOT HELD (exit $RC)"; tail -5 "$MUT/out.txt" | cut -c1-300; exit 1; fi
fi
if [ $RC -eq 1 ]; then echo "CAUGHT (exit 1)"; exit 0; else echo "MISSED (exit $RC)"; exit 1; fi
